"""Per-property check definitions: which theorem files are the obligations, and which
correspondence parts tie the model to /repo."""
import glob, json, os, re, sys
from vcheck import Part, harness, coq_eval, log, OUT, COQ

QUICK = lambda ctx: ctx["tier"] != "thorough"


def _parse_lists(out, name):
    """extract `name = [...]` printed by Coq (possibly wrapped over lines)"""
    m = re.search(r"%s\s*=\s*(\[.*?\])\s*:\s" % re.escape(name), out, re.S)
    return re.sub(r"\s+", " ", m.group(1)) if m else None


def _eval_dir(part, d, pattern, names, on_bad):
    files = sorted(glob.glob(os.path.join(d, pattern)))
    outs = coq_eval(files)
    for f in files:
        rc, out = outs[f]
        if rc != 0:
            part.violation("model-eval-failed", "the model could not be evaluated on %s: %s" % (os.path.basename(f), out[-800:]),
                           dict(kind="coq-eval", file=os.path.basename(f), log=out[-3000:]), found_input=False)
            continue
        for n in names:
            lst = _parse_lists(out, n)
            if lst is None:
                part.violation("model-eval-failed", "no result %s in %s" % (n, os.path.basename(f)),
                               dict(kind="coq-eval", log=out[-2000:]), found_input=False)
            elif lst != "[]":
                on_bad(f, n, lst)


# ------------------------------------------------------------------ C18

def part_faults_seq(ctx):
    p = Part("faults-sequential")
    d = os.path.join(ctx["work"], "fseq")
    n = 300 if QUICK(ctx) else 3000
    rc, out = harness(["faults-seq", "-seed", str(ctx["seed"]), "-n", str(n), "-out", d])
    if rc != 0:
        p.violation("harness-failed", out[-1500:], dict(log=out[-3000:]), found_input=False)
        return p
    info = json.load(open(os.path.join(d, "faults_seq.json")))
    p.evaluations = info["histories"]
    p.nontrivial = info["stats"].get("histories_with_fault", 0)
    p.traces = info["histories"]
    p.samples = info["samples"][:2]
    p.info = info["stats"]

    def bad(f, n, lst):
        src = open(f).read()
        ids = re.findall(r"(\d+)%nat", lst)
        for i in ids[:3]:
            m = re.search(r"\(%s%%nat, \(\[.*?\]\)\)" % i, src, re.S)
            p.violation("faults-seq-mismatch", "faults.Set disagrees with the sequential model on history %s" % i,
                        dict(kind="faults-seq", history=m.group(0) if m else i, seed=ctx["seed"]))
    _eval_dir(p, d, "faults_seq.v", ["bad"], bad)
    return p


def part_faults_http(ctx):
    """the fault injection API end to end: POST /faults/inject and GET /faults of the real controller
    (application fx module), Set.Check, against Faults.srun"""
    p = Part("faults-http-api")
    d = os.path.join(ctx["work"], "faults_http")
    n = 120 if QUICK(ctx) else 1500
    rc, out = harness(["faults-http", "-seed", str(ctx["seed"]), "-n", str(n), "-out", d])
    if rc != 0:
        p.violation("harness-failed", out[-1500:], dict(log=out[-3000:]), found_input=False)
        return p
    info = json.load(open(os.path.join(d, "faults_http.json")))
    p.evaluations = sum(info["stats"].get(k, 0) for k in ("add", "check_fired", "check_pass", "current"))
    p.nontrivial = info["stats"].get("check_fired", 0)
    p.traces = n
    p.samples = info["samples"]
    p.info = info["stats"]

    def bad(f, name, lst):
        src = open(f).read()
        for i in re.findall(r"(\d+)%nat", lst)[:3]:
            mh = re.search(r"\(%s%%nat, \(\[.*?\]\)\)" % i, src, re.S)
            p.violation("faults-http-mismatch", "faults added through POST /faults/inject, listed through GET /faults and fired by Set.Check disagree with the sequential model on history %s "
                        "(count omitted = unlimited, 0 = never fires and is never listed, n = exactly n firings)" % i,
                        dict(kind="faults-http", history=mh.group(0) if mh else i, seed=ctx["seed"]))
            break
    _eval_dir(p, d, "faults_http.v", ["bad"], bad)
    return p


def part_faults_sched(ctx):
    p = Part("faults-forced-schedules")
    d = os.path.join(ctx["work"], "fsched")
    args = ["faults-sched", "-seed", str(ctx["seed"]), "-out", d]
    args += (["-len", "4", "-random", "100"] if QUICK(ctx) else ["-len", "6", "-random", "2000"])
    rc, out = harness(args)
    if rc != 0:
        p.violation("harness-failed", out[-1500:], dict(log=out[-3000:]), found_input=False)
        return p
    info = json.load(open(os.path.join(d, "faults_sched.json")))
    if not info.get("hook"):
        p.info = dict(hook=False)
        return p
    p.evaluations = info["cases"]
    p.nontrivial = info["schedules_with_rematch"]
    p.traces = info["cases"]
    p.samples = info["samples"][:2]
    p.info = dict(exhaustive_cases=info["exhaustive_cases"], schedules_with_rematch=info["schedules_with_rematch"])

    def bad(f, n, lst):
        src = open(f).read()
        for i in re.findall(r"(\d+)%nat", lst)[:3]:
            m = re.search(r"\(%s%%nat, chk .*?\)(?=;\n|\]\.)" % i, src, re.S)
            p.violation("faults-schedule-mismatch",
                        "under a forced interleaving faults.Set.Check fails a different set of callers than the model (case %s)" % i,
                        dict(kind="faults-sched", case=m.group(0) if m else i, seed=ctx["seed"]))
    _eval_dir(p, d, "faults_sched_*.v", ["bad"], bad)
    return p


def part_faults_prune(ctx):
    """the asynchronous prune must not lose a fault added while it runs (stress, not a forced schedule)"""
    p = Part("faults-prune-race")
    d = os.path.join(ctx["work"], "fprune")
    rc, out = harness(["faults-prune", "-rounds", "300" if QUICK(ctx) else "3000", "-out", d])
    if rc != 0:
        p.violation("harness-failed", out[-1500:], dict(log=out[-3000:]), found_input=False)
        return p
    info = json.load(open(os.path.join(d, "faults_prune.json")))
    p.evaluations = info["rounds"]
    p.nontrivial = info["rounds"]
    p.traces = info["rounds"]
    p.samples = [info]
    p.info = info
    if info["lost"] or info["not_listed"]:
        p.violation("fault-lost-during-prune", "a fault added for an operation while the prune of an exhausted fault of the same operation was running was lost: "
                    "in %d of %d rounds it fired less than its count, in %d it was missing from the listing" % (info["lost"], info["rounds"], info["not_listed"]),
                    dict(kind="faults-prune", result=info))
    if info["overfired"]:
        p.violation("fault-overfired", "a fault fired more often than its count in %d rounds" % info["overfired"], dict(kind="faults-prune", result=info))
    return p


def part_faults_grpc(ctx):
    """faults injected through the real gRPC interceptor: parameters from request fields"""
    p = Part("faults-grpc-interceptor")
    d = os.path.join(ctx["work"], "fgrpc")
    rc, out = harness(["faults-grpc", "-seed", str(ctx["seed"]), "-out", d])
    if rc != 0:
        p.violation("harness-failed", out[-1500:], dict(log=out[-3000:]), found_input=False)
        return p
    info = json.load(open(os.path.join(d, "faults_grpc.json")))
    p.evaluations = info["calls"]
    p.nontrivial = info["failed_calls"]
    p.traces = info["scenarios"]
    p.samples = info["samples"][:2]

    def bad(f, n, lst):
        p.violation("faults-grpc-mismatch", "the gRPC fault injector failed a different set of calls than the model: scenarios %s" % lst,
                    dict(kind="faults-grpc", scenarios=lst, seed=ctx["seed"]))
    _eval_dir(p, d, "faults_grpc.v", ["bad"], bad)
    return p


# ------------------------------------------------------------------ C07 / C08

def _filter_part(ctx, name, codes, keyfn):
    p = Part(name)
    d = os.path.join(ctx["work"], "filter")
    if not os.path.exists(os.path.join(d, "filter.json")):
        args = ["filter-diff", "-seed", str(ctx["seed"]), "-out", d]
        args += (["-n", "500", "-mut", "500", "-fuzz", "500", "-exhaustive", "0.06"] if QUICK(ctx)
                 else ["-n", "6000", "-mut", "6000", "-fuzz", "6000", "-exhaustive", "1", "-shards", "64"])
        rc, out = harness(args)
        if rc != 0:
            p.violation("harness-failed", out[-1500:], dict(log=out[-3000:]), found_input=False)
            return p
    info = json.load(open(os.path.join(d, "filter.json")))
    index = json.load(open(os.path.join(d, "filter_index.json")))
    p.evaluations = info["cases"]
    p.traces = info["cases"]
    p.nontrivial = sum(v for k, v in info["stats"].items() if k.endswith(":ok"))
    p.samples = info["samples"][:3]
    p.info = dict(stats=info["stats"], exhaustive_total=info["exhaustive_total"], exhaustive_run=info["exhaustive_run"],
                  exhaustive_maps=info["exhaustive_maps"])
    for i, e in enumerate(index):
        if e["status"] in ("panic", "hang"):
            p.violation("parser-" + e["status"], "ParseString %s on %r" % (e["status"], e["src"]),
                        dict(kind="filter", src=e["src"], status=e["status"]))
    seen = {}

    def bad(f, n, lst):
        for m in re.finditer(r"\((\d+), \[([\d; ]+)\]\)", lst):
            i = int(m.group(1))
            cs = [int(x) for x in m.group(2).split(";")]
            for c in cs:
                if c in codes:
                    key = keyfn(c, index[i])
                    seen.setdefault(key, []).append(i)
    _eval_dir(p, d, "filter_*.v", ["bad"], bad)
    for key, ids in seen.items():
        e = index[ids[0]]
        p.violation(key, "%s: %d inputs, e.g. %r (printed: %r)" % (key, len(ids), e["src"], e.get("printed")),
                    dict(kind="filter", code=key, src=e["src"], printed=e.get("printed"), n=len(ids),
                         more=[index[j]["src"] for j in ids[1:6]], seed=ctx["seed"]))
    return p


def _c07_key(c, e):
    if c == 5:
        return "documented-neq-absent" if "!" in e["src"] else "documented-semantics"
    return {2: "evaluator-differs", 6: "evaluator-error", 8: "meaning-differs"}[c]


def _c08_key(c, e):
    if c == 7:
        return "outside-documented-grammar"
    if c == 1:
        return "parser-differs"
    if c == 3:
        return "printer-differs"
    return "roundtrip-broken"


def part_filter_c07(ctx):
    return _filter_part(ctx, "filter-semantics", {2, 5, 6, 8}, _c07_key)


def part_filter_c08(ctx):
    return _filter_part(ctx, "filter-syntax", {1, 3, 4, 7}, _c08_key)


# ------------------------------------------------------------------ C17 codec, C04 backoff

def part_codec(ctx):
    p = Part("duration-codec")
    d = os.path.join(ctx["work"], "codec")
    n = 400 if QUICK(ctx) else 6000
    rc, out = harness(["codec-diff", "-seed", str(ctx["seed"]), "-n", str(n), "-out", d])
    if rc != 0:
        p.violation("harness-failed", out[-1500:], dict(log=out[-3000:]), found_input=False)
        return p
    info = json.load(open(os.path.join(d, "codec.json")))
    p.evaluations = info["durations"] + info["strings"]
    p.nontrivial = info["durations"] + info["strings_accepted"]
    p.traces = p.evaluations
    p.samples = info["samples"]

    def bad(f, n, lst):
        ids = [int(x) for x in re.findall(r"(\d+)%(?:nat|N)", lst)]
        if n == "vbad":
            ds = [info["duration_list"][i] for i in ids[:5]]
            p.violation("duration-roundtrip", "Interval.Value/Scan disagrees with the model or does not round-trip for durations %s" % ds,
                        dict(kind="codec-duration", durations=ds, seed=ctx["seed"]))
        else:
            ss = [info["string_list"][i] for i in ids[:5]]
            p.violation("interval-scan", "Interval.Scan disagrees with the model on %r" % ss,
                        dict(kind="codec-string", strings=ss, seed=ctx["seed"]))
    _eval_dir(p, d, "codec_*.v", ["vbad", "sbad"], bad)
    return p


def part_backoff(ctx):
    p = Part("backoff-grid")
    d = os.path.join(ctx["work"], "backoff")
    rc, out = harness(["backoff-grid", "-max-n", "40" if QUICK(ctx) else "130", "-out", d])
    if rc != 0:
        p.violation("harness-failed", out[-1500:], dict(log=out[-3000:]), found_input=False)
        return p
    info = json.load(open(os.path.join(d, "backoff.json")))
    p.evaluations = info["cases"]
    p.nontrivial = info["cases"]
    p.traces = info["cases"]
    p.samples = info["samples"]
    p.info = dict(policies=info["policies"], exhaustive_grid=True, saturated_cases=info.get("saturated_cases"))

    def bad(f, n, lst):
        p.violation("backoff-arithmetic", "NextDelayFor differs from min(max, min*1.1^n) beyond the float tolerance: %s" % lst[:400],
                    dict(kind="backoff", cases=lst[:2000]))
    _eval_dir(p, d, "backoff_*.v", ["bad", "satbad"], bad)
    return p


# ------------------------------------------------------------------ C10 wake-ups

def part_notify_seq(ctx):
    p = Part("notify-registry")
    d = os.path.join(ctx["work"], "notify")
    rc, out = harness(["notify-seq", "-seed", str(ctx["seed"]), "-n", "300" if QUICK(ctx) else "3000", "-out", d])
    if rc != 0:
        p.violation("harness-failed", out[-1500:], dict(log=out[-3000:]), found_input=False)
        return p
    info = json.load(open(os.path.join(d, "notify_seq.json")))
    p.evaluations = info["histories"]
    p.nontrivial = info["with_multi_wake"]
    p.traces = info["histories"]
    p.samples = info["samples"][:2]

    def bad(f, n, lst):
        src = open(f).read()
        for i in re.findall(r"\d+", lst)[:3]:
            m = re.search(r"\(%s%%nat, chk .*?\)(?=;\n|\]\.)" % i, src, re.S)
            p.violation("wake-list-not-fully-woken", "PublishAwaiter/Cancel/WakePublishListeners close a different set of channels than the model (history %s)" % i,
                        dict(kind="notify-seq", history=m.group(0) if m else i, seed=ctx["seed"]))
    _eval_dir(p, d, "notify_seq.v", ["bad"], bad)
    return p


def part_wake_sched(ctx):
    p = Part("waiting-pull-schedules")
    d = os.path.join(ctx["work"], "wake")
    rc, out = harness(["wake-sched", "-out", d, "-reps", "6" if QUICK(ctx) else "30"], timeout=3000)
    if rc != 0:
        p.violation("harness-failed", out[-1500:], dict(log=out[-3000:]), found_input=False)
        return p
    info = json.load(open(os.path.join(d, "wake_sched.json")))
    res = info["results"]
    p.evaluations = len(res)
    p.nontrivial = len(set((r["writer"], r["placement"]) for r in res))
    p.traces = len(res)
    p.samples = res[:3]
    p.info = dict(bound_ms=info["bound_ms"], max_latency_ms=max(r["latency_ms"] for r in res) if res else 0)
    seen = set()
    for r in res:
        if not r["ok"]:
            key = "lost-wakeup:%s" % r["writer"]
            if key not in seen:
                seen.add(key)
                p.violation(key, "a pull waiting on the subscription did not return the message within %d ms of the writer's commit (writer: %s, commit placed %s): %s" %
                            (info["bound_ms"], r["writer"], r["placement"], r["err"] or "returned nothing"), dict(kind="wake-schedule", result=r))
    return p


# ------------------------------------------------------------------ C09 fault enumeration, C16 boundary requests

def part_fault_enum(ctx):
    p = Part("fault-enumeration")
    d = os.path.join(ctx["work"], "faultenum")
    args = ["fault-enum", "-out", d]     # every statement position of every operation, in both tiers (13 s)
    rc, out = harness(args, timeout=3000)
    if rc != 0:
        p.violation("harness-failed", "fault enumeration failed: " + out[-1500:], dict(log=out[-3000:]), found_input=False)
        return p
    info = json.load(open(os.path.join(d, "faultenum.json")))
    res = info["results"]
    p.evaluations = len(res)
    p.nontrivial = len(set((r["scenario"], r["k"]) for r in res if r["errored"]))
    p.traces = len(res)
    p.samples = res[:3]
    p.info = dict(statements_per_operation=info["statements_per_operation"], exhaustive=info["exhaustive"])
    seen = set()
    p.info["cancellation_not_delivered"] = 0
    for r in res:
        sc = r["scenario"]
        probs = []
        if "cancellation not delivered" in r["call"]:
            # the client-side cancellation did not reach the server's transaction within 3 s:
            # the run says nothing about atomicity (the request simply completed)
            p.info["cancellation_not_delivered"] += 1
            continue
        if not r["errored"]:
            probs.append(("fault-not-reported", "no error was reported"))
        if not r["unchanged"]:
            if r["only_heartbeat"] and sc.startswith("pull"):
                probs.append(("pull-heartbeat", "only subscriptions.expires_at (the expiry heartbeat of the pull's first transaction) changed"))
            else:
                probs.append(("partial-effect:" + sc, "tables changed although the operation failed: " + r.get("diff", "")))
        if r["woken"]:
            probs.append(("wake-without-commit:" + sc, "%d publish waiters were woken by a transaction that did not commit" % r["woken"]))
        if not r["retry_ok"]:
            probs.append(("retry-failed:" + sc, "the retry after the fault failed"))
        for key, what in probs:
            if key in seen:
                continue
            seen.add(key)
            p.violation(key, "%s with statement %d/%d (%s, %s) failing: %s" % (sc, r["k"], r["of"], r["call"], r["mode"], what),
                        dict(kind="fault-enum", result=r))
    # retried histories against the model
    outs = coq_eval(sorted(glob.glob(os.path.join(d, "cases_*.v"))))
    labels = info["retry_labels"]
    for f, (rc, out) in sorted(outs.items()):
        if rc != 0:
            p.violation("model-eval-failed", out[-600:], dict(log=out[-2000:]), found_input=False)
            continue
        for m in re.finditer(r"r(\d+) =\s*(\[.*?\])\s*:\s*list", out, re.S):
            if m.group(2).strip() != "[]":
                hi = int(m.group(1))
                sw = labels[hi].endswith("!swallowed")
                key = ("swallowed-fault-differs:" if sw else "retry-differs:") + labels[hi].split("@")[0]
                if key not in seen:
                    seen.add(key)
                    what = ("the operation reported success although statement %s failed, and what it left behind differs from a successful step of the model: %s"
                            if sw else "after a fault and a retry (%s) the state differs from the model's prediction: %s")
                    p.violation(key, what % (labels[hi], re.sub(r"\s+", " ", m.group(2))[:300]),
                                dict(kind="fault-retry", label=labels[hi], coq_case=_extract_case(f, hi)))
    return p


def part_ordered_publish_faults(ctx):
    """C05: a storage fault inside a Publish to an ordered subscription must not leave a delivery
    without its predecessor link (the publish fails as a whole, or the chain is as the model says)"""
    p = Part("ordered-publish-under-fault")
    d = os.path.join(ctx["work"], "faultenum_c05")
    rc, out = harness(["fault-enum", "-out", d, "-only", "publish-batch-ordered"], timeout=1500)
    if rc != 0:
        p.violation("harness-failed", "fault enumeration failed: " + out[-1500:], dict(log=out[-3000:]), found_input=False)
        return p
    info = json.load(open(os.path.join(d, "faultenum.json")))
    res = info["results"]
    p.evaluations = len(res)
    p.traces = len(res)
    p.nontrivial = sum(1 for r in res if r["errored"])
    p.info = dict(statements=info["statements_per_operation"], swallowed=sum(1 for r in res if r.get("swallowed")))
    labels = info["retry_labels"]
    outs = coq_eval(sorted(glob.glob(os.path.join(d, "cases_*.v"))))
    seen = set()
    for f, (rc, out) in sorted(outs.items()):
        if rc != 0:
            p.violation("model-eval-failed", out[-600:], dict(log=out[-2000:]), found_input=False)
            continue
        for m in re.finditer(r"r(\d+) =\s*(\[.*?\])\s*:\s*list", out, re.S):
            hi = int(m.group(1))
            mm = re.sub(r"\s+", " ", m.group(2))
            if mm.strip() != "[]" and ("d.not_before" in mm or "MDels" in mm):
                key = "ordering-chain-under-fault"
                if key not in seen:
                    seen.add(key)
                    p.violation(key, "publish of same-key messages to an ordered subscription with a failing statement (%s): the deliveries it left behind are not chained as the model says: %s" %
                                (labels[hi], mm[:300]), dict(kind="fault-retry", label=labels[hi], coq_case=_extract_case(f, hi)))
    return p



def part_publish_faults(ctx):
    """C01: a Publish hit by a storage fault either reports the failure or has stored everything: an
    accepted publish (answer OK, message ids) whose messages are not there is a lost message"""
    p = Part("publish-under-fault")
    d = os.path.join(ctx["work"], "faultenum_c01")
    rc, out = harness(["fault-enum", "-out", d, "-only", "publish-single,publish-batch-ordered,publish-large"], timeout=1500)
    if rc != 0:
        p.violation("harness-failed", "fault enumeration failed: " + out[-1500:], dict(log=out[-3000:]), found_input=False)
        return p
    info = json.load(open(os.path.join(d, "faultenum.json")))
    res = info["results"]
    p.evaluations = len(res)
    p.traces = len(res)
    p.nontrivial = sum(1 for r in res if r["errored"])
    p.samples = res[:2]
    p.info = dict(statements=info["statements_per_operation"])
    seen = set()
    for r in res:
        if "cancellation not delivered" in r["call"]:
            continue
        if not r["errored"] and r["unchanged"]:
            key = "accepted-publish-not-stored"
            if key not in seen:
                seen.add(key)
                p.violation(key, "%s with statement %d/%d (%s, %s) failing: Publish answered OK with message ids, and no message and no delivery was stored" %
                            (r["scenario"], r["k"], r["of"], r["call"], r["mode"]), dict(kind="fault-enum", result=r))
    labels = info["retry_labels"]
    outs = coq_eval(sorted(glob.glob(os.path.join(d, "cases_*.v"))))
    for f, (rc, out) in sorted(outs.items()):
        if rc != 0:
            p.violation("model-eval-failed", out[-600:], dict(log=out[-2000:]), found_input=False)
            continue
        for m in re.finditer(r"r(\d+) =\s*(\[.*?\])\s*:\s*list", out, re.S):
            hi = int(m.group(1))
            mm = re.sub(r"\s+", " ", m.group(2))
            if mm.strip() != "[]" and labels[hi].endswith("!swallowed") and ("MMsgs" in mm or "MDels" in mm or "MResp" in mm):
                key = "accepted-publish-differs"
                if key not in seen:
                    seen.add(key)
                    p.violation(key, "Publish reported success although a statement failed (%s), and the messages / deliveries it left behind are not those of a successful publish: %s" %
                                (labels[hi], mm[:300]), dict(kind="fault-retry", label=labels[hi], coq_case=_extract_case(f, hi)))
    return p


def part_ack_faults(ctx):
    """C03: an acknowledgement hit by a storage fault either reports the failure or is durable: an Acknowledge
    (or a stream's ack) answered OK whose deliveries are still unacknowledged comes back later"""
    p = Part("ack-under-fault")
    d = os.path.join(ctx["work"], "faultenum_c03")
    rc, out = harness(["fault-enum", "-out", d, "-only", "ack,stream-ack,stream-ack-and-nack"], timeout=1500)
    if rc != 0:
        p.violation("harness-failed", "fault enumeration failed: " + out[-1500:], dict(log=out[-3000:]), found_input=False)
        return p
    info = json.load(open(os.path.join(d, "faultenum.json")))
    res = info["results"]
    p.evaluations = len(res)
    p.traces = len(res)
    p.nontrivial = sum(1 for r in res if r["errored"])
    p.samples = res[:2]
    p.info = dict(statements=info["statements_per_operation"])
    seen = set()
    for r in res:
        if "cancellation not delivered" in r["call"]:
            continue
        if not r["errored"] and r["unchanged"]:
            key = "accepted-ack-not-stored"
            if key not in seen:
                seen.add(key)
                p.violation(key, "%s with statement %d/%d (%s, %s) failing: the acknowledgement was answered OK, and no delivery was marked acknowledged" %
                            (r["scenario"], r["k"], r["of"], r["call"], r["mode"]), dict(kind="fault-enum", result=r))
    return p


def part_services_fault(ctx):
    """the prune service's own transaction handling under a storage fault on its SECOND run"""
    p = Part("service-faults")
    d = os.path.join(ctx["work"], "svcfault")
    rc, out = harness(["services-fault", "-out", d], timeout=600)
    if rc != 0:
        p.violation("harness-failed", "service fault runs failed: " + out[-1500:], dict(log=out[-3000:]), found_input=False)
        return p
    res = json.load(open(os.path.join(d, "svcfault.json")))["results"]
    p.evaluations = len(res)
    p.traces = len(res)
    p.nontrivial = sum(1 for r in res if r["fault_reached"])
    p.samples = res[:2]
    p.info = dict(skipped=[r["skip"] for r in res if r.get("skip")])
    seen = set()
    for r in res:
        if r.get("stalled") and "service-stalled-after-partial-batch" not in seen:
            seen.add("service-stalled-after-partial-batch")
            p.violation("service-stalled-after-partial-batch", "prune-deleted-topics service: " + r["stalled"], dict(kind="service-fault", result=r))
        if r.get("skip") or not r["fault_reached"]:
            continue
        probs = []
        if not r["unchanged"]:
            probs.append(("partial-effect:service-prune-deleted-topics", "tables changed although the run failed: " + r.get("diff", "")))
        if not r["next_run_prunes"]:
            probs.append(("retry-failed:service-prune-deleted-topics", "the next, unfaulted run did not prune the topic and its snapshot"))
        if r.get("writer_blocked"):
            probs.append(("writer-blocked-after-failed-run:service-prune-deleted-topics", "the failed run did not end its transaction: " + r["writer_blocked"]))
        for key, what in probs:
            if key in seen:
                continue
            seen.add(key)
            p.violation(key, "prune-deleted-topics service, second run (after a successful first run), statement %d/%d (%s) failing: %s" %
                        (r["k"], r["of"], r["call"], what), dict(kind="service-fault", result=r))
    return p


def part_c05_seek_revival(ctx):
    """the witness of C05_seek_revival_refuted replayed on the implementation (known finding F19)"""
    p = Part("seek-revival")
    d = os.path.join(ctx["work"], "c05seek")
    rc, out = harness(["c05-seek-revival", "-out", d], timeout=600)
    if rc != 0:
        p.violation("harness-failed", "the seek-revival replay failed: " + out[-1500:], dict(log=out[-3000:]), found_input=False)
        return p
    info = json.load(open(os.path.join(d, "c05seek.json")))
    p.evaluations = 1
    p.traces = 1
    p.nontrivial = 1
    p.samples = [info["events"]]
    for v in info.get("violations") or []:
        p.violation(v.split(":")[0], v, dict(kind="c05-seek-revival", events=info["events"], model_witness="Bus/T_C05.v Module SeekRevival, theorem C05_seek_revival_refuted"))
    return p


def part_dead_letter_faults(ctx):
    """C06: dead-lettering is ONE step also under storage faults: every statement of a pull / nack / sweep that
    dead-letters fails in turn; the operation fails as a whole (nothing forwarded, nothing retired) or has the
    model's full effect"""
    p = Part("dead-letter-under-fault")
    d = os.path.join(ctx["work"], "faultenum_c06")
    rc, out = harness(["fault-enum", "-out", d, "-only", "dead-letter-sweep,pull-dead-lettering,nack-with-dead-letter"], timeout=1500)
    if rc != 0:
        p.violation("harness-failed", "fault enumeration failed: " + out[-1500:], dict(log=out[-3000:]), found_input=False)
        return p
    info = json.load(open(os.path.join(d, "faultenum.json")))
    res = info["results"]
    p.evaluations = len(res)
    p.traces = len(res)
    p.nontrivial = sum(1 for r in res if r["errored"])
    p.info = dict(statements=info["statements_per_operation"], swallowed=sum(1 for r in res if r.get("swallowed")))
    seen = set()
    for r in res:
        if "cancellation not delivered" in r["call"]:
            continue
        if not r["unchanged"] and not (r["only_heartbeat"] and r["scenario"].startswith("pull")):
            key = "dead-letter-not-atomic-under-fault"
            if key not in seen:
                seen.add(key)
                p.violation(key, "%s with statement %d/%d (%s, %s) failing: %s, and the tables changed: %s" %
                            (r["scenario"], r["k"], r["of"], r["call"], r["mode"], "an error was reported" if r["errored"] else "NO error was reported", r.get("diff", "")),
                            dict(kind="fault-enum", result=r))
    return p

def part_c16(ctx):
    p = Part("boundary-requests")
    d = os.path.join(ctx["work"], "c16")
    args = ["c16", "-out", d] + (["-sample", "4"] if QUICK(ctx) else [])
    rc, out = harness(args, timeout=3000)
    if rc != 0:
        p.violation("harness-failed", "the request enumeration failed: " + out[-1500:], dict(log=out[-3000:]), found_input=False)
        return p
    info = json.load(open(os.path.join(d, "c16.json")))
    res = info["results"]
    p.evaluations = info["requests"]
    p.nontrivial = sum(1 for r in res if r["outcome"] != "OK")
    p.traces = info["requests"]
    p.samples = [r for r in res if r["outcome"] not in ("OK", "InvalidArgument")][:3]
    p.info = dict(outcomes=info["outcomes"], per_rpc=info["per_rpc"], total_domain=info["total_domain"], exhaustive=info["exhaustive"])
    seen = set()
    for r in res:
        key = None
        if r["outcome"] == "PANIC":
            key, what = "server-crash:" + r["rpc"], "the server process terminated"
        elif r["outcome"] == "HANG":
            key, what = "server-hang:" + r["rpc"], "no answer within the deadline"
        elif r.get("changed"):
            key, what = "error-changed-state:" + r["rpc"], "answered %s but %s" % (r["outcome"], r["changed"])
        if key and key not in seen:
            seen.add(key)
            p.violation(key, "%s{%s}: %s" % (r["rpc"], r["desc"], what), dict(kind="c16-request", request=r))
    return p


# ------------------------------------------------------------------ Bus engine

MM = re.compile(r"\((\d+)%nat,\s*(\[.*?\])\)", re.S)


def run_engine(ctx, profile, n, steps):
    """returns (stats, histories, mismatches=[(hist, step, kind, text)]) or raises"""
    key = "engine:%s" % profile
    if key in ctx:
        return ctx[key]
    d = os.path.join(ctx["work"], "engine_" + profile)
    rc, out = harness(["engine", "-seed", str(ctx["seed"]), "-n", str(n), "-steps", str(steps), "-profile", profile,
                       "-out", d, "-workers", "16", "-per-file", "4"] + (["-monitor", "prune"] if profile == "prune" else []), timeout=3000)
    if rc != 0:
        raise RuntimeError(out[-3000:])
    stats = json.load(open(os.path.join(d, "stats.json")))
    hist = json.load(open(os.path.join(d, "histories.json")))
    outs = coq_eval(sorted(glob.glob(os.path.join(d, "cases_*.v"))))
    mism, evalfail = [], []
    for f, (rc, out) in sorted(outs.items()):
        if rc != 0:
            evalfail.append((os.path.basename(f), out[-1500:]))
            continue
        for m in re.finditer(r"v(\d+) =\s*(\[.*?\])\s*:\s*list", out, re.S):
            hi = int(m.group(1))
            for si in re.findall(r"(\d+)%nat", m.group(2)):
                st = hist[hi]["steps"][int(si)]
                mism.append(dict(h=hi, s=int(si), kind="Job:" + st["op"]["Job"], mm="[MNote \"prune-visible\"]", file=f))
        for m in re.finditer(r"r(\d+) =\s*(\[.*?\])\s*:\s*list", out, re.S):
            hi, body = int(m.group(1)), m.group(2)
            for sm in MM.finditer(body):
                si = int(sm.group(1))
                st = hist[hi]["steps"][si]
                kind = st["kind"] + (":" + st["op"]["Job"] if st["kind"] == "Job" else "")
                mism.append(dict(h=hi, s=si, kind=kind, mm=re.sub(r"\s+", " ", sm.group(2)), file=f))
    ctx[key] = (stats, hist, mism, evalfail, d)
    return ctx[key]


def engine_part(profile, nq, nt, steps, claim, nontrivial_keys, monitors=()):
    profiles = profile
    def fn(ctx):
        profile = profiles if isinstance(profiles, str) else (profiles[0] if QUICK(ctx) else profiles[1])
        p = Part("engine-" + profile)
        n = nq if QUICK(ctx) else nt
        try:
            stats, hist, mism, evalfail, d = run_engine(ctx, profile, n, steps)
        except RuntimeError as e:
            p.violation("harness-failed", "the engine failed (crash of the server under test?): %s" % str(e)[-1200:],
                        dict(kind="engine", log=str(e)), found_input=False)
            return p
        p.evaluations = stats["steps"] - stats["skipped"]
        p.traces = stats["histories"]
        p.nontrivial = sum(stats["counters"].get(k, 0) for k in nontrivial_keys)
        p.info = dict(op_kinds=stats["op_kinds"], codes=stats["codes"], counters=stats["counters"], skipped=stats["skip_reasons"])
        if hist:
            p.samples = [[(s["kind"], s["resp"]["Kind"]) for s in hist[0]["steps"][:12]]]
        for f, o in evalfail:
            p.violation("model-eval-failed", "cases file %s did not evaluate: %s" % (f, o[-600:]), dict(log=o), found_input=False)
        seen = set()
        # direct property monitors evaluated by the harness on the observed states
        nmon = 0
        for hi, hh in enumerate(hist):
            for si, st in enumerate(hh["steps"]):
                for note in st.get("monitor") or []:
                    key = note.split(":")[0]
                    if key not in monitors:
                        continue
                    nmon += 1
                    if key in seen:
                        continue
                    seen.add(key)
                    p.violation(key, "step %d (%s) of history %d (seed %s): %s" % (si, st["kind"], hi, hh["seed"], note),
                                dict(kind="engine-monitor", profile=profile, history_seed=hh["seed"], step=si, note=note,
                                     history=[dict(kind=x["kind"], op=x["op"], resp=x["resp"]) for x in hh["steps"][:si + 1]]))
        p.info["monitor_notes"] = nmon
        for m in mism:
            try:
                mine = claim(m["kind"], m["mm"], hist[m["h"]]["steps"][m["s"]])
            except TypeError:
                mine = claim(m["kind"], m["mm"])
            if not mine:
                if os.environ.get("VERIF_SHOW_UNCLAIMED"):
                    sys.stderr.write("unclaimed by this property: %s %s (history %d step %d)\n" % (m["kind"], m["mm"][:300], m["h"], m["s"]))
                continue
            tags = sorted(set(re.findall(r"M[A-Z][a-z]+(?: \"[^\"]*\")?", m["mm"])))
            key = "%s:%s" % (m["kind"], "+".join(t.replace('MNote ', '').replace('"', '') for t in tags))
            if key in seen:
                continue
            seen.add(key)
            st = hist[m["h"]]["steps"]
            p.violation(key, "step %d (%s) of history %d (seed %s): implementation and model disagree: %s" %
                        (m["s"], m["kind"], m["h"], hist[m["h"]]["seed"], m["mm"]),
                        dict(kind="engine-step", profile=profile, history_seed=hist[m["h"]]["seed"], step=m["s"], mismatch=m["mm"],
                             failing_step=st[m["s"]], history=[dict(kind=s["kind"], op=s["op"], resp=s["resp"]) for s in st[:m["s"] + 1]],
                             coq_case=_extract_case(m["file"], m["h"])))
        return p
    return fn


def _extract_case(f, hi):
    try:
        src = open(f).read()
        a = src.index("Definition h%d " % hi)
        b = src.index("Definition r%d " % hi)
        return src[a:b][:200000]
    except Exception:
        return None


def kinds(*ks):
    ks = set(ks)
    return lambda kind, mm: kind in ks or kind.split(":")[0] in ks


def _push_eval(p, d, vfile, names_prefixes, on_bad):
    outs = coq_eval([os.path.join(d, vfile)])
    rc, out = outs[os.path.join(d, vfile)]
    if rc != 0:
        p.violation("model-eval-failed", "the model could not be evaluated on %s: %s" % (vfile, out[-800:]), dict(kind="coq-eval", log=out[-3000:]), found_input=False)
        return
    for m in re.finditer(r"(bad\w*?)(\d+) =\s*(\[.*?\])\s*:\s*list", out, re.S):
        if m.group(3).strip() != "[]":
            on_bad(m.group(1), int(m.group(2)), [int(x) for x in re.findall(r"(\d+)%nat", m.group(3))])


def part_push_conn(ctx):
    """the push connection driven one batch at a time (verif hook) against a scripted endpoint"""
    p = Part("push-connection")
    d = os.path.join(ctx["work"], "pushconn")
    args = ["push-conn", "-seed", str(ctx["seed"]), "-out", d] + (["-n", "8", "-batches", "60", "-slow", "2"] if QUICK(ctx)
                                                                   else ["-n", "48", "-batches", "150", "-slow", "5", "-all-status"])
    rc, out = harness(args, timeout=3000)
    if rc != 0:
        p.violation("harness-failed", "the push connection run failed: " + out[-1500:], dict(log=out[-3000:]), found_input=False)
        return p
    info = json.load(open(os.path.join(d, "push_conn.json")))
    batches = json.load(open(os.path.join(d, "push_conn_batches.json")))
    p.evaluations = info["receives"] + info["envelopes"]
    p.nontrivial = info["nack_batches"] + info["kinds"].get("slow", 0)
    p.traces = info["sequences"]
    p.samples = info["samples"][:3]
    p.info = {k: info[k] for k in ("sequences", "receives", "ack_batches", "nack_batches", "envelopes", "distinct_final_statuses", "kinds")}
    p.info["exhaustive_status_sweep_200_599"] = not QUICK(ctx)
    seen = set()
    for pr in info.get("problems") or []:
        if pr["key"] not in seen:
            seen.add(pr["key"])
            p.violation(pr["key"], "push connection, sequence %s: %s" % (pr.get("sequence"), pr["detail"]), dict(kind="push-conn", problem=pr, seed=ctx["seed"]))

    def bad(name, seq, idx):
        if name == "badenc":
            key, what = "envelope-base64", "message.data is not the standard base64 of the payload (Base64.encode)"
        else:
            key, what = "receive-differs", "Receive() returned a different ack/nack decision, window or FlowControl than Push.v"
        if key in seen:
            return
        seen.add(key)
        b = batches[str(seq)]
        p.violation(key, "push connection, sequence %d, batch %s: %s: %s" % (seq, idx[:3], what, [b[i] for i in idx[:2] if i < len(b)] if name != "badenc" else ""),
                    dict(kind="push-conn", sequence=seq, batches=idx[:5], observed=[b[i] for i in idx[:5] if i < len(b)] if name != "badenc" else None,
                         history=b[:max(idx[:1] or [0]) + 1] if name != "badenc" else None, seed=ctx["seed"]))
    _push_eval(p, d, "push_conn.v", None, bad)
    return p


def part_push_e2e(ctx):
    """the production push streamer on a real database against the scripted endpoint"""
    p = Part("push-end-to-end")
    d = os.path.join(ctx["work"], "pushe2e")
    rc, out = harness(["push-e2e", "-seed", str(ctx["seed"]), "-reps", "1" if QUICK(ctx) else "8", "-out", d], timeout=3000)
    if rc != 0:
        p.violation("harness-failed", "the push end-to-end run failed: " + out[-1500:], dict(log=out[-3000:]), found_input=False)
        return p
    info = json.load(open(os.path.join(d, "push_e2e.json")))
    p.evaluations = info["totals"]["requests"]
    p.nontrivial = info["totals"]["failure_responses"]
    p.traces = len(info["scenarios"])
    p.samples = [dict(scenario=r["scenario"], messages=r["messages"], requests=r["requests"], max_in_flight=r["max_in_flight"], max_window=r["max_window"]) for r in info["results"][:3]]
    p.info = dict(totals=info["totals"], min_redelivery_gap_ms=info["min_redelivery_gap_ms"], scenarios=info["scenarios"])
    seen = set()
    for pr in info.get("problems") or []:
        if pr["key"] not in seen:
            seen.add(pr["key"])
            p.violation(pr["key"], "push scenario %s (%s): %s" % (pr.get("sequence"), info["scenarios"][pr.get("sequence", 0)], pr["detail"]),
                        dict(kind="push-e2e", problem=pr, scenario=info["scenarios"][pr.get("sequence", 0)], seed=ctx["seed"]))

    def bad(name, seq, idx):
        key = "envelope-base64" if name == "badenc" else "ack-decision-differs"
        if key not in seen:
            seen.add(key)
            p.violation(key, "push scenario %d: %s (cases %s)" % (seq, "message.data is not the standard base64 of the payload" if name == "badenc"
                                                                  else "a push was acknowledged / not acknowledged against Push.classify", idx[:5]),
                        dict(kind="push-e2e", scenario=seq, cases=idx[:10], seed=ctx["seed"]))
    _push_eval(p, d, "push_e2e.v", None, bad)
    return p


def services_part(jobs, pusher):
    """the registered background services run one at a time on a prepared state (verif hook):
    each run is one Job step of the model; the HTTP pusher service end to end"""
    def fn(ctx):
        p = Part("background-services")
        d = os.path.join(ctx["work"], "services")
        rc, out = harness(["services", "-out", d], timeout=3000)
        if rc != 0:
            p.violation("harness-failed", "the services run failed: " + out[-1500:], dict(log=out[-3000:]), found_input=False)
            return p
        info = json.load(open(os.path.join(d, "services.json")))
        runs = [r for r in info["service_runs"] if r["job"] in jobs]
        p.evaluations = len(runs) + (info["pusher_service"]["requests"] if pusher else 0)
        p.nontrivial = sum(1 for r in runs if r["rows_affected"] > 0)
        p.traces = 1
        p.samples = runs[:3]
        p.info = dict(service_runs=runs, pusher_service=info["pusher_service"] if pusher else None)
        seen = set()
        if "PruneCompletedDeliveries" in jobs and info.get("dead_rows_left"):
            p.violation("leftover", "after two rounds of the background services dead rows older than their minimum age remain: %s" % info["dead_rows_left"][:5],
                        dict(kind="services", left=info["dead_rows_left"]))
        if pusher:
            for pr in info["pusher_service"].get("problems") or []:
                key = "pusher-service:" + pr.split(":")[0]
                if key not in seen:
                    seen.add(key)
                    p.violation(key, "HTTP pusher service: " + pr, dict(kind="services-pusher", problem=pr))
        steps = info["steps"]
        outs = coq_eval([os.path.join(d, "services.v")])
        rc, out = outs[os.path.join(d, "services.v")]
        if rc != 0:
            p.violation("model-eval-failed", "services.v did not evaluate: " + out[-600:], dict(log=out[-2000:]), found_input=False)
            return p
        for m in re.finditer(r"v0 =\s*(\[.*?\])\s*:\s*list", out, re.S):
            for si in re.findall(r"(\d+)%nat", m.group(1)):
                st = steps[int(si)]
                if st["op"]["Job"] in jobs:
                    p.violation("prune-visible:" + st["op"]["Job"], "the background service running %s changed the client-visible view of the database" % st["op"]["Job"],
                                dict(kind="services-monitor", step=int(si), failing_step=st))
        for m in re.finditer(r"r0 =\s*(\[.*?\])\s*:\s*list", out, re.S):
            for sm in MM.finditer(m.group(1)):
                st = steps[int(sm.group(1))]
                if st["kind"] == "Job" and st["op"]["Job"] in jobs:
                    key = "service:%s:%s" % (st["op"]["Job"], "+".join(sorted(set(re.findall(r"M[A-Z][a-z]+", sm.group(2))))))
                    if key not in seen:
                        seen.add(key)
                        p.violation(key, "background service running %s (age 1 h, batch 100): implementation and model disagree: %s" % (st["op"]["Job"], re.sub(r"\s+", " ", sm.group(2))),
                                    dict(kind="services-step", step=int(sm.group(1)), failing_step=st, mismatch=sm.group(2)))
        return p
    return fn


PRUNE_JOBS = ("PruneCompletedDeliveries", "PruneExpiredDeliveries", "PruneCompletedMessages", "PruneDeletedSubDeliveries", "PruneDeletedSubs", "PruneDeletedTopics")


def timers_part(own):
    """behaviours that hinge on the implementation's own real-time timers / clock readings inside
    one long call (a pull already waiting when a deadline passes; a job object executed again later)"""
    def fn(ctx):
        p = Part("real-time-timers")
        d = os.path.join(ctx["work"], "timers")
        rc, out = harness(["timers", "-out", d, "-reps", "1" if QUICK(ctx) else "5"], timeout=3000)
        if rc != 0:
            p.violation("harness-failed", "the timers run failed: " + out[-1500:], dict(log=out[-3000:]), found_input=False)
            return p
        info = json.load(open(os.path.join(d, "timers.json")))
        p.evaluations = len(info["results"])
        p.nontrivial = len(info["results"])
        p.traces = len(info["results"])
        p.samples = [dict(scenario=r["scenario"], wall_ms=r["wall_ms"]) for r in info["results"][:5]]
        seen = set()
        for r in info["results"]:
            for pr in r.get("problems") or []:
                if pr["key"] in own and pr["key"] not in seen:
                    seen.add(pr["key"])
                    p.violation(pr["key"], "scenario %s: %s" % (r["scenario"], pr["detail"]), dict(kind="timers", scenario=r["scenario"], problem=pr))
        return p
    return fn


TIMERS_C04 = ("lease-timer-missed", "lease-violated", "attempt-number", "stale-config-in-waiting-pull")
TIMERS_C10 = ("wake-missed-after-timer-round",)
TIMERS_C17 = ("stale-config-in-waiting-pull",)
TIMERS_C02 = ("stale-config-in-waiting-pull",)
TIMERS_C14 = ("delivered-after-retention", "delay-timer-missed", "delivered-before-delay")
TIMERS_C15 = ("reused-job-misses-rows",)


def part_fetch_diff(ctx):
    return _part_fetch_diff(ctx, ("fetch-differs", "skipped-delivery-touched"))


def part_fetch_untouched(ctx):
    return _part_fetch_diff(ctx, ("skipped-delivery-touched",))


def _part_fetch_diff(ctx, own):
    """the byte budget of one fetch (GetSubscriptionMessages) against Streamer.fetch; deliveries fetched
    but not handed out keep their row (no attempt is counted for them)"""
    p = Part("fetch-byte-budget")
    d = os.path.join(ctx["work"], "fetchdiff")
    rc, out = harness(["fetch-diff", "-seed", str(ctx["seed"]), "-n", "30" if QUICK(ctx) else "400", "-out", d], timeout=3000)
    if rc != 0:
        p.violation("harness-failed", "fetch-diff failed: " + out[-1500:], dict(log=out[-3000:]), found_input=False)
        return p
    info = json.load(open(os.path.join(d, "fetch_diff.json")))
    p.evaluations = info["fetches"]
    p.nontrivial = info["with_skipped_candidates"]
    p.traces = info["fetches"]
    p.samples = info["samples"]
    p.info = {k: info[k] for k in ("fetches", "non_empty", "with_skipped_candidates", "oversize_alone")}

    if info.get("touched") and "skipped-delivery-touched" in own:
        p.violation("skipped-delivery-touched", info["touched"][0], dict(kind="fetch-diff", touched=info["touched"][:10], seed=ctx["seed"]))

    def bad(f, n, lst):
        if "fetch-differs" not in own:
            return
        idx = [int(x) for x in re.findall(r"(\d+)%nat", lst)]
        p.violation("fetch-differs", "GetSubscriptionMessages handed out different deliveries than Streamer.fetch for (candidates, MaxMessages, MaxBytes, strict, returned) = %s" %
                    [info["cases"][i] for i in idx[:3]], dict(kind="fetch-diff", cases=[info["cases"][i] for i in idx[:10]], seed=ctx["seed"]))
    _eval_dir(p, d, "fetch_diff.v", ["bad"], bad)
    return p


def part_pull_race(ctx):
    """two pullers of one subscription, the second one run in full at each transaction boundary of the first"""
    p = Part("pull-race")
    d = os.path.join(ctx["work"], "pullrace")
    rc, out = harness(["pull-race", "-out", d], timeout=600)
    if rc != 0:
        p.violation("harness-failed", "pull-race failed: " + out[-1500:], dict(log=out[-3000:]), found_input=False)
        return p
    res = json.load(open(os.path.join(d, "pullrace.json")))["results"]
    p.evaluations = len(res)
    p.traces = len(res)
    p.nontrivial = sum(1 for r in res if r["b_ran"])
    p.samples = res[:2]
    seen = set()
    for r in res:
        for pr in r.get("problems") or []:
            key = pr.split(":")[0]
            if key not in seen:
                seen.add(key)
                p.violation(key, "puller B run after commit %d of puller A's call: %s" % (r["after_commit"], pr), dict(kind="pull-race", result=r))
    return p


def part_tx_wrapper(ctx):
    """ent Client.DoTx / DoCtxTx / DoCtxTxRetry against Tx.do_tx / Tx.do_retry: answer class and durability for
    every combination of a BEGIN fault, closure outcome, COMMIT fault, ROLLBACK fault, with and without retries"""
    p = Part("transaction-wrapper")
    d = os.path.join(ctx["work"], "txdiff")
    rc, out = harness(["tx-diff", "-out", d], timeout=900)
    if rc != 0:
        p.violation("harness-failed", "tx-diff failed: " + out[-1500:], dict(log=out[-3000:]), found_input=False)
        return p
    info = json.load(open(os.path.join(d, "tx.json")))
    p.evaluations = info["n"]
    p.traces = info["n"]
    p.nontrivial = sum(1 for c in info["cases"] if c["returned"] != "ROk")
    p.samples = info["cases"][:3]
    p.info = dict(exhaustive=True, durable_cases=sum(1 for c in info["cases"] if c["durable"]))

    def bad(f, n, lst):
        idx = [int(x) for x in re.findall(r"(\d+)", lst)]
        cs = [info["cases"][i] for i in idx[:10]]
        lost = [c for c in cs if c["returned"] == "ROk" and not c["durable"]]
        key = "success-without-commit" if lost else "tx-wrapper-differs"
        p.violation(key, "Client.DoTx / DoCtxTxRetry differs from Tx.do_retry%s: %s" %
                    (" - it answered nil although nothing was committed" if lost else "", json.dumps((lost or cs)[:2])[:700]),
                    dict(kind="tx-diff", cases=cs))
    _eval_dir(p, d, "tx.v", ["bad"], bad)
    return p


def part_dl_service_race(ctx):
    """the dead-letter service's first run against a client acknowledging right after its first commit"""
    p = Part("dead-letter-service-race")
    d = os.path.join(ctx["work"], "dlrace")
    rc, out = harness(["dl-service-race", "-out", d], timeout=300)
    if rc != 0:
        p.violation("harness-failed", "dl-service-race failed: " + out[-1500:], dict(log=out[-3000:]), found_input=False)
        return p
    r = json.load(open(os.path.join(d, "dlrace.json")))
    p.evaluations = 1
    p.traces = 1
    p.nontrivial = 1 if r["forwarded_at_first_commit"] or r["acked_by_the_client_after_first_commit"] else 0
    p.samples = [r]
    for pr in r.get("problems") or []:
        p.violation(pr.split(":")[0], pr, dict(kind="dl-service-race", result=r))
    return p


def part_adapter(ctx):
    """the StreamingPull request adapter (services.VerifAdaptIn, hook) against Adapter.adapt_in"""
    p = Part("streaming-pull-request-adapter")
    d = os.path.join(ctx["work"], "adapter")
    rc, out = harness(["adapter-diff", "-seed", str(ctx["seed"]), "-n", "400" if QUICK(ctx) else "6000", "-out", d], timeout=600)
    if rc != 0:
        p.violation("harness-failed", "adapter-diff failed: " + out[-1500:], dict(log=out[-3000:]), found_input=False)
        return p
    info = json.load(open(os.path.join(d, "adapter.json")))
    p.evaluations = info["n"]
    p.nontrivial = info["stats"].get("accepted", 0)
    p.traces = info["n"]
    p.samples = info["cases"][:3]
    p.info = info["stats"]

    def bad(f, n, lst):
        idx = [int(x) for x in re.findall(r"(\d+)%N", lst)]
        p.violation("adapter-differs", "streamWrapper.adaptIn translates a StreamingPull request differently from Adapter.adapt_in (ack ids, deadline ids, the one deadline of the request, flow control): %s" %
                    json.dumps([info["cases"][i] for i in idx[:2]])[:900], dict(kind="adapter-diff", cases=[info["cases"][i] for i in idx[:10]], seed=ctx["seed"]))
    _eval_dir(p, d, "adapter.v", ["bad"], bad)
    return p


def stream_part(own):
    """the production MessageStreamer against a scripted client (and through the StreamingPull RPC);
    [own] says which violation keys belong to the property being checked"""
    def fn(ctx):
        return _part_stream(ctx, own)
    return fn


STREAM_C11 = ("bound-messages", "bound-bytes", "stall", "head-of-line-limit", "fetch-spin", "harness-failed")
STREAM_C03 = ("ack-not-completed",)
STREAM_C01 = ("nack-completed",)
STREAM_C04 = ("zero-deadline-not-immediate", "lease-lost-at-stream-end", "lease-violated")


def _part_stream(ctx, own):
    p = Part("stream-scenarios")
    d = os.path.join(ctx["work"], "stream")
    rc, out = harness(["stream", "-seed", str(ctx["seed"]), "-n", "24" if QUICK(ctx) else "240", "-out", d], timeout=3000)
    if rc != 0:
        p.violation("harness-failed", "the stream scenarios failed (did the streamer end with an error?): " + out[-1500:], dict(log=out[-3000:]), found_input=False)
        return p
    info = json.load(open(os.path.join(d, "stream.json")))
    t = info["totals"]
    p.evaluations = t["sends"] + t["flow_checks"]
    p.nontrivial = t["flow_checks_with_new_sends"]
    p.traces = t.get("scenarios_direct", 0) + t.get("scenarios_grpc", 0)
    p.samples = [r["events"][:12] for r in info["results"][:2]]
    p.info = dict(totals=t, head_of_line_probe={k: v for k, v in info["head_of_line_probe"].items() if k != "events"}, stall_bound_ms=3000)
    seen = set()
    for r in info["results"]:
        for v in r.get("violations") or []:
            key = v.split(":")[0]
            if key not in own:
                continue
            if key not in seen:
                seen.add(key)
                p.violation(key, "%s stream, seed %s, limits %d messages / %d bytes: %s" % (r["scenario"], r["seed"], r["max_messages"], r["max_bytes"], v),
                            dict(kind="stream-scenario", scenario=r))
    hol = info["head_of_line_probe"]
    if "head-of-line-limit" not in own:
        return p
    if 10 not in hol["sent_sizes"]:
        p.violation("head-of-line-limit", "limits 2 messages / 100 bytes, a 60-byte message held by the client, backlog of a 60-byte then a 10-byte message: sent sizes %s, "
                    "%.0f transactions per second while blocked" % (hol["sent_sizes"], hol["transactions_per_second_while_blocked"]), dict(kind="stream-hol", probe=hol))
    if hol["transactions_per_second_while_blocked"] > 100:
        p.violation("fetch-spin", "a stream that cannot fit the next message into its byte budget re-runs its fetch %.0f times per second (starving other writers, e.g. the acks that would free capacity)" %
                    hol["transactions_per_second_while_blocked"], dict(kind="stream-hol", probe=hol))
    return p


def part_c15_meta(ctx):
    """paired histories with / without spliced prune jobs on the real code + convergence rounds;
    run B is also checked step by step against the model and by the prune monitor"""
    p = Part("metamorphic-splicing")
    d = os.path.join(ctx["work"], "c15")
    n = 16 if QUICK(ctx) else 320
    rc, out = harness(["c15", "-seed", str(ctx["seed"]), "-n", str(n), "-steps", "45", "-out", d, "-workers", "16", "-per-file", "2"], timeout=3000)
    if rc != 0:
        p.violation("harness-failed", "the paired runs failed (crash of the server under test?): " + out[-1500:], dict(log=out[-3000:]), found_input=False)
        return p
    info = json.load(open(os.path.join(d, "c15.json")))
    hist = json.load(open(os.path.join(d, "histories.json")))
    p.evaluations = info["client_steps"] + info["jobs_spliced"] + info["drain_pulls"]
    p.nontrivial = info["jobs_effective"]
    p.traces = info["pairs"]
    p.samples = info["samples"][:1]
    p.info = {k: info[k] for k in ("pairs", "client_steps", "jobs_spliced", "jobs_effective", "jobs_failed", "job_kinds_effective", "op_kinds",
                                   "pulls_compared", "pulled_messages_compared", "drain_pulls", "converge_runs", "converge_rounds_total",
                                   "converge_rows_reclaimed", "converge_transient_job_errors", "skipped_steps")}
    seen = set()
    for v in info.get("divergences") or []:
        key = "%s:%s" % (v["class"], v["kind"])
        if key in seen:
            continue
        seen.add(key)
        p.violation(key, "pair %d (seed %s), client step %d (%s): with prune jobs spliced in, %s" % (v["pair"], v["seed"], v["step"], v["kind"], v["detail"]),
                    dict(kind="c15-pair", divergence=v))
    outs = coq_eval(sorted(glob.glob(os.path.join(d, "cases_*.v"))))
    for f, (rc, out) in sorted(outs.items()):
        if rc != 0:
            p.violation("model-eval-failed", "cases file %s did not evaluate: %s" % (os.path.basename(f), out[-600:]), dict(log=out[-2000:]), found_input=False)
            continue
        for m in re.finditer(r"v(\d+) =\s*(\[.*?\])\s*:\s*list", out, re.S):
            hi = int(m.group(1))
            for si in re.findall(r"(\d+)%nat", m.group(2)):
                st = hist[hi]["steps"][int(si)]
                key = "prune-visible:" + st["op"]["Job"]
                if key not in seen:
                    seen.add(key)
                    p.violation(key, "run B of pair %d, step %s: the committed job %s (age %s, max %s, rows %s) changed the client-visible view of the database" %
                                (hi, si, st["op"]["Job"], st["op"]["MinAge"], st["op"]["MaxN"], st["op"]["Chosen"]),
                                dict(kind="c15-monitor", pair=hi, step=int(si), failing_step=st, coq_case=_extract_case(f, hi)))
        for m in re.finditer(r"r(\d+) =\s*(\[.*?\])\s*:\s*list", out, re.S):
            hi, body = int(m.group(1)), m.group(2)
            for sm in MM.finditer(body):
                si = int(sm.group(1))
                st = hist[hi]["steps"][si]
                if st["kind"] != "Job" or not st["op"]["Job"].startswith("Prune"):
                    continue
                key = "Job:%s:%s" % (st["op"]["Job"], "+".join(sorted(set(re.findall(r"M[A-Z][a-z]+", sm.group(2))))))
                if key not in seen:
                    seen.add(key)
                    p.violation(key, "run B of pair %d, step %d (%s): implementation and model disagree: %s" % (hi, si, st["op"]["Job"], re.sub(r"\s+", " ", sm.group(2))),
                                dict(kind="c15-step", pair=hi, step=si, failing_step=st, mismatch=sm.group(2), coq_case=_extract_case(f, hi)))
    return p


def claim_c15(kind, mm):
    return kind.startswith("Job:Prune")


DELIVERY_OPS = ("Publish", "Pull", "Ack", "ModAck", "StreamAckNack", "Job", "DeleteSub", "SeekTime", "SeekSnap")


def replay(path):
    """./check replay <file>: show what was recorded and re-run the owning check with its seed."""
    rec = json.load(open(path))
    print(json.dumps({k: rec[k] for k in ("property", "part", "key", "description", "tier", "seed")}, indent=1))
    os.environ["VERIF_SEED"] = str(rec.get("seed", 1))
    import vcheck
    return vcheck.main([rec["property"], "--tier", rec.get("tier", "quick")])


def claim_c01(kind, mm):
    k = kind.split(":")[0]
    if k in ("Publish", "Pull"):
        return True
    if k in ("Ack", "ModAck", "StreamAckNack", "Job", "DeleteSub", "SeekTime", "SeekSnap", "UpdateSub", "CreateSub", "DeleteTopic"):
        # (a job's removal set is an observed oracle: a job that removed a row it had no right
        # to remove -- an outstanding delivery, a message still needed -- shows as illegal-choice)
        return "MDels" in mm or "MMsgs" in mm or "delivery" in mm or (k == "Job" and "illegal-choice" in mm)
    if k == "CreateSnap":
        return "MSnaps" in mm      # what a snapshot records decides which messages a later seek to it may retire
    return False


def claim_c02(kind, mm):
    k = kind.split(":")[0]
    # a delivery that should not exist (wrong filter / topic / subscription) is a C02 matter at
    # the step that creates it: a later pull merely hands it out
    return (k == "Pull" and "MResp" in mm) or "MMsgs" in mm or (k == "Publish" and "MResp" in mm) or "unexpected-delivery" in mm or "d.msg" in mm or "d.sub" in mm or "other-subscription" in mm or \
        (k == "CreateSnap" and "MSnaps" in mm)    # what a snapshot of ONE subscription records must not depend on what another one acknowledged


def claim_c04(kind, mm):
    k = kind.split(":")[0]
    return (k == "Pull" and ("MDels" in mm or "illegal-fuzz" in mm or "MResp" in mm or "illegal-selection" in mm)) or \
        (k in ("ModAck", "StreamAckNack") and ("MDels" in mm or "illegal-fuzz" in mm)) or \
        (k in ("CreateSub", "UpdateSub") and "s.retry" in mm)     # the retry policy that governs every later lease, as stored


def claim_c06(kind, mm):
    k = kind.split(":")[0]
    return ((k in ("Pull", "StreamAckNack") or kind == "Job:DeadLetterSweep") and
            ("MDels" in mm or "delivery" in mm or "illegal-choice" in mm or "MResp" in mm)) or \
        ("s.dead_letter" in mm and k not in ("CreateSub", "UpdateSub"))   # a step that has no business with the policy rewrote it


def claim_c14(kind, mm):
    k = kind.split(":")[0]
    return kind == "Job:ExpireSubs" or k == "SetDelay" or (k == "Pull" and ("MSubs" in mm or "MResp" in mm or "MTime" in mm)) or \
        (k == "Publish" and "MDels" in mm) or (k in ("CreateSub", "UpdateSub") and "MSubs" in mm) or kind == "Job:PruneExpiredDeliveries" or \
        "d.expires" in mm or "s.expires" in mm or \
        (k in ("CreateSub", "UpdateSub") and "MTime" in mm) or \
        (k in ("SeekTime", "SeekSnap") and "d.attempt_at" in mm) or \
        "new:d.attempt_at" in mm      # retention / expiry deadlines written by any step (seek revival included); the expiry base of a
                                      # (re)configured subscription (the harness reads the written time off expires_at - ttl); the first
                                      # attempt time of a delivery created by the step (publish / forward time + injected delay);
                                      # a seek never moves the due time of a delivery it does not revive (injected delay included)


def claim_c08e(kind, mm, st):
    # a filter that does not parse is rejected and never stored; one that parses is stored as given
    k = kind.split(":")[0]
    q = (st.get("op") or {}).get("Sub") or {}
    return k in ("CreateSub", "UpdateSub") and bool(q.get("Filter")) and ("MResp" in mm or "s.filter" in mm or "s.row" in mm)


def claim_c17(kind, mm):
    if "missing-delivery" in mm or "unexpected-delivery" in mm:
        return True      # what was configured (filter) is what is enforced
    k = kind.split(":")[0]
    if k in ("SeekTime", "SeekSnap") and "d.expires" in mm:
        return True      # the retention a seek gives back is the CONFIGURED message retention
    return k in ("CreateSub", "GetSub", "UpdateSub", "ListSubs", "CreateTopic", "GetTopic", "UpdateTopic", "ModifyPush", "ListTopics") and \
        any(t in mm for t in ("MResp", "MSubs", "MTopics"))


def claim_c05(kind, mm):
    k = kind.split(":")[0]
    return (k == "Publish" and ("MDels" in mm or "MTime" in mm)) or (k == "Pull" and ("illegal-selection" in mm or "MResp" in mm)) or \
        (kind in ("Job:PruneCompletedDeliveries", "Job:PruneExpiredDeliveries") and ("MDels" in mm or "illegal-choice" in mm)) or \
        (k in ("SeekTime", "SeekSnap") and "MDels" in mm) or \
        "d.not_before" in mm or "d.published" in mm   # (a seek that revives only PART of a same-key chain lets the rest overtake;) predecessor links written by any step (dead-letter forwards included),
                                                      # and the position a delivery takes in its subscription's order


def claim_c16(kind, mm, st):
    # a request answered with an error must leave every table as it was
    return st["resp"]["Kind"] == "err" and st["kind"] != "Job" and any(t in mm for t in ("MTopics", "MSubs", "MMsgs", "MDels", "MSnaps"))


def claim_c07(kind, mm):
    # routing by filter: which subscriptions get a delivery when something is published or forwarded
    k = kind.split(":")[0]
    # (a filter stored differently from the text the client gave routes by another filter from then on:
    # with step-local checking only the storing step shows it)
    return "missing-delivery" in mm or "unexpected-delivery" in mm or (k == "Publish" and "MDels" in mm) or \
        (k in ("CreateSub", "UpdateSub") and "s.filter" in mm)


def claim_c03(kind, mm):
    k = kind.split(":")[0]
    # (a seek rewinds ITS subscription only: an acknowledged delivery of another subscription that comes back is a C03 matter)
    return k in ("Ack", "ModAck", "StreamAckNack") or (k in ("SeekTime", "SeekSnap") and "other-subscription" in mm)


def claim_c12(kind, mm):
    k = kind.split(":")[0]
    return k in ("CreateTopic", "GetTopic", "DeleteTopic", "ListTopics", "ListTopicSubs", "CreateSub", "GetSub", "DeleteSub", "ListSubs",
                 "CreateSnap", "GetSnap", "DeleteSnap", "ListSnaps") and any(t in mm for t in ("MResp", "MTopics", "MSubs", "MSnaps", "fresh"))


def claim_c13(kind, mm):
    # (a seek to a time selects by the delivery's position in the subscription: whoever writes it, C13 relies on it)
    return kind.split(":")[0] in ("SeekTime", "SeekSnap", "SeekNoTarget", "CreateSnap") or "d.published" in mm


BUS_ASSUME = ["SQLite with immediate transactions: serialisable, FK and unique constraints enforced (modelled)",
              "virtual time by shifting stored timestamps; steps whose call spans a stored deadline are skipped and counted",
              "fresh ids, LIMIT choices, written timestamps and retry jitter are observed oracles whose legality the model checks",
              "identifiers are never reused (history theorems)"]

T_FLOAT = "float assumption: Go's float64 evaluation of min*1.1^n stays within 2 ns of the exact rational value (checked on a grid, not proved)"

CHECKS = {
    "C01": dict(
        props=["C01", "Tie"],
        parts=[engine_part("delivery", 48, 600, 45, claim_c01, ["deliveries_created", "pull_nonempty", "redelivery", "nack_rescheduled"]),
               stream_part(STREAM_C01), part_publish_faults, part_tx_wrapper,
               engine_part(("fanout230", "fanout450"), 1, 1, 250, claim_c01, ["deliveries_created"])],
        rule="[+ publish under fault: with a storage fault at every statement position (sampled for a 150-message batch) a Publish that answers OK has stored everything] [+ stream part: a message nacked on a stream (Nack list or zero deadline, also through the StreamingPull RPC) must not end up acknowledged] generated histories (profile delivery: publish/pull/ack/modack/nack/seek/jobs/clock jumps) against the production gRPC server; every step is checked "
             "locally: model step from the implementation's pre-state vs response and full five-table post-state; non-trivial = deliveries created, non-empty pulls, redeliveries",
        assumptions=BUS_ASSUME),
    "C02": dict(
        props=["C02", "Tie"],
        parts=[engine_part("general", 48, 600, 45, claim_c02, ["pull_nonempty", "publish_ok", "publish_batch"]), timers_part(TIMERS_C02)],
        rule="engine profile general over several topics and subscriptions sharing topics; owned projection: Pull responses (ack id, message id, payload as canonical JSON value, "
             "attributes, ordering key, publish time, attempt) and the messages table; payloads cover whitespace, unicode, HTML-sensitive characters, big/exponent numbers, nesting, non-JSON, empty",
        assumptions=BUS_ASSUME + ["payloads are compared by JSON value (the code stores the compacted, HTML-escaped form)"]),
    "C04": dict(
        props=["C04", "C04backoff", "Tie"],
        parts=[engine_part("delivery", 48, 600, 45, claim_c04, ["redelivery", "modack_effective", "nack_rescheduled", "pull_nonempty"], monitors=("handed-out-before-due",)), part_backoff,
               timers_part(TIMERS_C04), stream_part(STREAM_C04), part_pull_race, part_fetch_untouched],
        rule="[+ pull race: a second puller run in full at each transaction boundary of the first one never gets a message the first one is handed] [+ real-time part: a pull already waiting returns a message when its 330 ms retry deadline passes while another message's deadline was extended to 600 s] engine profile delivery (retry policies absent/min/max/both from 200 ms to 100 s, clock jumps to lease deadline -/+ margin) + grid of NextDelayFor over policies x attempts; "
             "non-trivial = redeliveries, effective deadline changes, nacks",
        assumptions=BUS_ASSUME + [T_FLOAT, "concurrent pullers: interleavings are at transaction granularity (serialisable database), covered by the history theorems; not exhibited on the code here"]),
    "C06": dict(
        props=["C06", "Tie"],
        parts=[engine_part("delivery", 48, 600, 45, claim_c06, ["pull_deadlettered", "nack_deadlettered", "job_effective:DeadLetterSweep"], monitors=("attempts-exceeded",)),
               services_part(("DeadLetterSweep",), False), part_dead_letter_faults, part_fetch_untouched, part_dl_service_race],
        rule="[+ dl-service-race: the dead-letter service's first run with a client acknowledging right after its first commit: nothing is forwarded after the acknowledgement] [+ fetch part: a delivery fetched but not handed out (byte budget, limit) keeps its attempt count] [+ background services part: the dead-letter service's first run = one model sweep step] engine profile delivery with dead-letter policies N in 1..4 and default, topologies from generated topics (no subscriber, several, filtered, ordered, deleted topic, self loop); "
             "non-trivial = deliveries dead-lettered by pull / nack / sweep",
        assumptions=BUS_ASSUME),
    "C05": dict(
        props=["C05", "Tie"],
        parts=[engine_part("delivery", 48, 600, 45, claim_c05, ["pull_keyed", "publish_batch"], monitors=("overtake", "seek-revival-overtake")),
               engine_part("seek", 16, 300, 45, claim_c05, ["pull_keyed"], monitors=("overtake", "seek-revival-overtake")),
               part_ordered_publish_faults, part_c05_seek_revival],
        rule="[+ ordering monitor: the property evaluated DIRECTLY on every observed pull of the delivery and seek profiles (a keyed message handed out while an earlier same-key one is outstanding), under the client discipline of the theorem] [+ a Publish of three same-key messages to an ordered subscription behind an outstanding same-key message, with each of its statements failing in turn: the publish fails as a whole or the chain is as the model says; written times of a batch must increase strictly (hypothesis quiet of the theorem)] engine profile delivery: 40% ordered subscriptions, keys k1 k1 k2 k3 and un-keyed messages, single and batched publishes, pulls of size 1..100, acks in any order, nacks, "
             "lease and retention expiry, dead-lettering, seeks, prunes; owned projection: predecessor links written by Publish, Pull selection/response, link nulling by the delivery prunes; "
             "non-trivial = keyed messages pulled, batches",
        assumptions=BUS_ASSUME + ["history theorem under the environment hypotheses of Bus/T_C05.v (quiet, disciplined H1-H6)",
                                  "H3 (no seek on the subscription) is NECESSARY: with a seek the property fails on the model (C05_seek_revival_refuted) and on the code (part seek-revival: known finding seek-revival-overtake)"]),
    "C09": dict(
        props=["C09", "Tie"],
        parts=[part_fault_enum, part_services_fault, part_tx_wrapper],
        rule="[+ transaction wrapper: Client.DoTx / DoCtxTxRetry against Tx.do_retry on all 80 combinations of BEGIN fault x closure outcome (ok, error, panic, cancelled) x COMMIT fault x ROLLBACK fault x (no retry, two retries): nil iff durable] [+ service part: the prune-deleted-topics service (one long-lived action object) is held before its SECOND run, a topic with a left-over snapshot is aged past the threshold and each of the run's 5 driver calls is failed in turn: tables unchanged, the next run prunes] for each of 26 mutating operations in a prepared non-trivial state, the k-th driver call (BEGIN/exec/query/COMMIT) is failed (error or context-cancellation error), "
             "every k in both tiers (215 positions); checks: error reported, five-table dump identical, no publish waiter woken, retry succeeds and matches the model; "
             "non-trivial = distinct (operation, position) pairs at which the fault fired",
        trusted=["the database's own atomicity under failure (ROLLBACK restores the snapshot) is assumed; the driver wrapper injects failures before the statement runs"],
        assumptions=["partial: faults are injected at statement boundaries of the SQL driver, not inside SQLite; PostgreSQL is not exercised",
                     "known finding pull-heartbeat: Pull commits its expiry heartbeat in an own transaction"]),
    "C10": dict(
        props=["C10"],
        parts=[part_notify_seq, part_wake_sched, timers_part(TIMERS_C10)],
        rule="[+ writers: a publisher whose context ends right after its COMMIT; a zero-deadline nack of 522 ids spanning subscriptions] [+ real-time: a waiting pull whose next-attempt timer fired in vain is still woken by the next publish] (1) random register/cancel/wake sequences on the real registry vs the model (channels closed after every call; waiters on a random subset of subscriptions); "
             "(2) a real waiting pull (ExecuteClient, MaxWait 30 s) held at its transaction boundaries by the SQL driver gate while each of 8 writer kinds commits "
             "before it starts / between heartbeat and query / after the query but before it blocks / after it blocked; it must return the message within 2 s; "
             "non-trivial = distinct (writer, placement) pairs",
        trusted=["Go channels, the mutex of notify.go, the goroutine scheduler and timers are modelled (atomic sections), not verified"],
        assumptions=["partial: interleavings inside atomic sections and the PostgreSQL LISTEN/NOTIFY relay are not exhibited; 'promptly' is a 2 s bound with all timers >= 10 s"]),
    "C14": dict(
        props=["C14", "Tie"],
        parts=[engine_part("delivery", 48, 600, 45, claim_c14, ["job_effective:ExpireSubs", "job_effective:PruneExpiredDeliveries", "pull_empty", "pull_nonempty"], monitors=("handed-out-after-retention",)),
               services_part(("ExpireSubs", "PruneExpiredDeliveries"), False), timers_part(TIMERS_C14)],
        rule="[+ background services part: the expiry service on a prepared state (a subscription 23 min from expiring must survive); real-time part: a pull waiting across the end of a message's retention must not hand it out, delivery delay honoured by a waiting pull] engine profile delivery: retention 20 s .. 1 h and default, ttl 45 s .. 24 h and default, injected delays 0/5/40 s; the clock jumps to each lease / retention / subscription "
             "deadline -1.5 s or +1.5 s ('clearly before or clearly after'); steps whose call spans a deadline are skipped and counted; owned projection: expiry sweep, pulls (heartbeat), "
             "publish (deadlines of new deliveries), SetDelay, expired-delivery prune",
        assumptions=BUS_ASSUME),
    "C17": dict(
        props=["C17", "C17codec", "Tie"],
        parts=[engine_part("config", 32, 600, 45, claim_c17, ["publish_ok", "pull_nonempty"]), part_codec, timers_part(TIMERS_C17)],
        rule="[+ real-time: a configuration change that commits while a pull is waiting is what that pull enforces when it hands out afterwards] engine profile config: create/get/update/list of subscriptions and topics with generated configurations (durations absent/0/negative/45 s..24 h, retry bounds incl. 0 and negative, "
             "dead-letter policies, push configs, labels, filters, every mask path incl. unknown/unsupported/repeated, in sequence) + duration codec: Interval.Value/Scan vs model on boundary and random "
             "int64 durations, PostgreSQL-style strings, Go-format strings, garbage",
        assumptions=BUS_ASSUME + ["Go-format strings with more fraction digits than Duration.String() produces are outside the exact-float class and not generated",
                                  "PostgreSQL itself is not exercised (no PostgreSQL offline); the PostgreSQL interval parser's sign/overflow behaviour is stated as refuted lemmas (F12), unreachable on SQLite"]),
    "C16": dict(
        props=["C16", "Tie"],
        parts=[part_c16, engine_part("general", 48, 600, 45, claim_c16, ["publish_ok"])],
        rule="[+ call deadlines of 1..900 ms on waiting pulls and acknowledgements; 120 idle StreamingPull streams open on one connection while ordinary requests are answered] boundary-domain requests (names valid/wrong kind/empty/unknown/deleted, int32 min,-1,0,1,1000,max, durations absent/negative/zero/huge/invalid, nested messages absent/empty, "
             "ack ids live/stale/foreign/garbage/unknown/mixed/duplicate, masks known/unknown/repeated/empty, payloads JSON/non-JSON/empty) on every implemented RPC against a child-process server; "
             "one factor at a time plus all pairs of the numeric/nested CreateSubscription factors; outcome PANIC = process exit; error answers must leave the dump unchanged",
        trusted=["panics originating in libraries for inputs outside the enumerated domains are not covered"],
        assumptions=["partial: the handler model covers the validation logic; the enumeration is pairwise, not the full cross product"]),
    "C15": dict(
        props=["C15", "Tie"],
        parts=[part_c15_meta, services_part(PRUNE_JOBS, False), part_services_fault, timers_part(TIMERS_C15), engine_part("prune", 48, 600, 45, claim_c15,
                                          ["job_effective:PruneCompletedDeliveries", "job_effective:PruneExpiredDeliveries", "job_effective:PruneCompletedMessages",
                                           "job_effective:PruneDeletedSubDeliveries", "job_effective:PruneDeletedSubs", "job_effective:PruneDeletedTopics"])],
        rule="[+ service-faults part: the prune service's second run under faults, a writer probed after a failed run, and a service that never runs again after a partial batch (judged after its full interval)] (1) metamorphic pairs on the real code: the same generated client history (publish / pull / ack / nack / modack / purge-seek / snapshots / deletes / expiry and dead-letter sweeps / "
             "clock jumps to deadline -/+ margin / get / list) is run on two fresh databases, once alone and once with the six prune jobs spliced in before random client steps (up to 3 per position, "
             "ages 0 / 1 s / 30 s / 1 h, batch 1 / 2 / 3 / 100); responses are compared step by step under the identity mapping of messages and deliveries, as are the outstanding backlog and the live names "
             "after every step, then both runs are drained twice; (2) run B is written as Coq cases: every step against the model and the executable monitor View.check_prune_steps (proved quiet on the model) "
             "on every committed job step; (3) convergence: everything is made dead (three variants), the clock jumps 8 days, rounds of the six jobs in random order with random batches must reach a fixpoint "
             "within (rows+5) rounds with no dead row left; (4) engine profile prune (22% jobs, all seeks) with the same monitor; non-trivial = job runs that removed rows",
        assumptions=BUS_ASSUME + ["backward seeks are excluded from the paired histories (README: a seek does not resurrect what was permanently deleted); they are covered by the engine part step-locally",
                                  "snapshots of an already deleted topic disappear when the topic is pruned (not among the things the property lists); the comparison ignores them",
                                  "the expiry sweep and the dead-letter sweep are client-visible by design and belong to the client history of both runs",
                                  "client-visible trace equality over all histories is checked metamorphically, not proved; proved are single-step invisibility of the view (incl. blockedness), "
                                  "removal of dead rows only, and convergence"]),
    "C11": dict(
        props=["C11"],
        parts=[part_fetch_diff, part_adapter, stream_part(STREAM_C11)],
        rule="(1) byte budget of one fetch: GetSubscriptionMessages(MaxMessages, MaxBytes, MaxBytesStrict) on databases with generated size mixes (2..400 bytes, limits below / at / above message sizes) "
             "against Streamer.fetch evaluated in Coq; (2) the production MessageStreamer (configured as the gRPC handler does) on a real database with a scripted client - limits 1..5 messages and "
             "20..100000 bytes, size mixes, stream acks, stream nacks (Nack list and zero deadline), external Acknowledge, publishes, waits; every fourth scenario through the real StreamingPull RPC; "
             "monitor at every Send: messages sent and not settled <= max messages, bytes <= max bytes unless it is the only message held; after every capacity-freeing action or publish the stream "
             "must send, within 3 s, at least one of what the model's fetch hands out for the database state and the client's holdings; (3) a deterministic head-of-line probe (transaction rate while "
             "blocked; whether the small message behind an oversized one is sent); non-trivial = flow checks after which the stream had sent more",
        trusted=["Go scheduler, sync.Mutex, channels, errgroup (the model's atomic sections are the code's critical sections and transactions)"],
        assumptions=["partial: interleavings are those the runs happen to exhibit (the proof covers all interleavings of the model's atomic steps); 'promptly' is a 3 s bound",
                     "leases are long (60 s) in the scenarios so that no message is re-sent while the client holds it: a client ack racing with such a re-send makes the client's holdings ambiguous",
                     "known finding head-of-line-limit: with the candidate list cut by LIMIT before the byte rule, an oversized message at the head hides a smaller one that would fit"]),
    "C19": dict(
        props=["C19pure", "C19"],
        parts=[part_push_conn, part_push_e2e, services_part((), True)],
        rule="[+ the push endpoint carries a query token and userinfo, checked on every POST; success answers with truncated bodies are successes] (1) the push connection (verif hook) against a scripted HTTP endpoint, one batch at a time: batches of 1..10 pushes ending in a fast success, a slow (>= 1 s) success, a non-success final "
             "status (quick: 35 codes; thorough: every code 200..599) or a transport error (connection reset); every Receive() is compared with Push.v (ack vs nack list, window after, FlowControl message), "
             "one sequence drives the window to its cap of 1000; every request body is decoded and compared with the message (base64 against Base64.encode evaluated in Coq, attributes, message id, "
             "ordering key, publish time, subscription, delivery attempt); (2) the production streamer (NewHttpPusher + MessageStreamer) on a real database: scenarios mixed / ordered / all-success / slow, "
             "endpoint answering out of order with per-attempt plans (failures then a success): every envelope, success => row completed and never pushed again, failure => not completed and pushed again "
             "as the next attempt no earlier than the backoff, window sampled within [1, 1000], concurrent pushes within the largest window seen; non-trivial = failure answers / nack and slow batches",
        trusted=["Go's net/http client and server, encoding/json (envelope marshalling) and time formatting are trusted libraries; the harness decodes the envelope with encoding/json",
                 "the verif hook actions.VerifNewPushConn (add-only, build tag verif) exposes the unexported connection type"],
        assumptions=["partial: the real-time split fast/slow (< 1 s) is driven with clear margins (0-60 ms vs 1.1 s); status 102 (and every 1xx) cannot be observed as a final status by Go's HTTP client and is not exercised",
                     "concurrency of the streamer and the Go scheduler are exercised, not exhausted (the bound is proved on the window model and checked on the runs)"]),
    "C03": dict(
        props=["C03", "Tie"],
        parts=[engine_part("delivery", 48, 600, 45, claim_c03, ["ack_effective", "ack_noop", "modack_effective", "nack_rescheduled"], monitors=("acked-redelivered",)),
               stream_part(STREAM_C03), part_adapter, part_ack_faults,
               engine_part(("bulk520", "bulk1100"), 1, 1, 30, claim_c03, ["ack_effective"])],
        parallel=True,
        rule="[+ ack-under-fault: with a storage fault at every statement position and at COMMIT an acknowledgement answered OK is durable] [+ stream part: ids acknowledged on a stream / outside it / on a second stream of a reconnecting client are completed in the database; bulk profile: Acknowledge calls with exactly 500 / 499 / the remaining ids of 520 (thorough 1100) leased deliveries] same engine; owned projection: Acknowledge / ModifyAckDeadline / stream ack+nack steps (duplicate, stale, foreign, garbage ids; nack and deadline changes after ack); "
             "non-trivial = acks that completed something, no-op acks, effective deadline changes, nacks",
        assumptions=BUS_ASSUME),
    "C12": dict(
        props=["C12", "Tie"],
        parts=[engine_part("names", 32, 600, 45, claim_c12, ["snapshot_created", "publish_ok"]),
               engine_part("many", 1, 1, 360, claim_c12, ["snapshot_created"])],
        rule="[+ profile many: 103 topics, 102 subscriptions of one topic, 103 snapshots (more than the 100-row page cap), every List walked with page sizes 101, 1000, 100, 60 following the tokens] engine profile names: create/delete/re-create/get/list of topics, subscriptions, snapshots in projects p, P, p%, p_, pp, p/x with page sizes 0,1,2,3,100,-1,1000 and followed page tokens",
        assumptions=BUS_ASSUME + ["concurrent creates of one name are serialised by the database (C12 race half is the unique index + serialisable transactions: assumed)"]),
    "C13": dict(
        props=["C13", "Tie"],
        parts=[engine_part("seek", 32, 600, 45, claim_c13, ["seek_effective", "snapshot_created"]),
               engine_part(("bulk1100", "bulk1100"), 1, 1, 40, claim_c13, ["seek_effective", "snapshot_created"])],
        parallel=True,
        rule="[+ bulk profile: 1100 messages, a snapshot whose acknowledged-message list has 1099 entries, seek to it] engine profile seek: publish / pull / partial ack / snapshot / seek to exact publish instants, +-1 ns, past, future, and to own and sibling snapshots, repeated; "
             "non-trivial = seeks that changed rows, snapshots created",
        assumptions=BUS_ASSUME + ["snapshot_meaning assumes plain deliveries (no dead-letter forwards into the subscription)"]),
    "C18": dict(
        props=["C18"],
        parts=[part_faults_seq, part_faults_http, part_faults_sched, part_faults_grpc, part_faults_prune],
        rule="[+ HTTP API part: Add/Check/Current histories with the descriptions added through POST /faults/inject and listed through GET /faults of the real controller (count omitted = unlimited / 0 / negative / n) vs the same sequential model] [+ stress part: a fault added while the asynchronous prune of an exhausted fault of the same operation runs must not be lost (300 rounds, prune slowed by 3000 unrelated descriptions); a stream opened while no fault was configured still gets faults injected later] sequential histories of Add/Check/Current and forced interleavings (yield hook between match and decrement) of 2-6 concurrent callers; through the deployed gRPC "
             "interceptor chain: unary calls and streaming pulls (stream-open check carrying only service -> method, general and per-message receive checks) with faults naming request fields; "
             "non-trivial = a fault fired / a caller lost the race and had to re-match",
        trusted=["Go memory model, sync/atomic and sync.RWMutex (each atomic Load/Add is one LTS step)", "the verif yield hook in faults.Set.Check (one added line)"],
        assumptions=["interleavings inside an atomic operation are not exhibited on the code; prune() is invisible (skips only exhausted entries)"]),
    "C07": dict(
        props=["C07", "Tie"],
        parts=[part_filter_c07, engine_part("general", 48, 600, 45, claim_c07, ["publish_ok", "deliveries_created"])],
        rule="grammar-generated, mutated, fuzzed and bounded-exhaustive filters x attribute maps: Go ParseString+Evaluate vs model parse+eval and vs the documented semantics; "
             "routing: engine profile general (30% filtered subscriptions, filter updates and re-creation under the same name via a scenario template), owned projection: which subscriptions "
             "get a delivery at Publish / dead-letter forward; non-trivial = the filter parsed, deliveries created",
        assumptions=["Unicode letter/digit classification only for the code points of Filter/Tables.v", "documented reading of != : NOT (=)"]),
    "C08": dict(
        props=["C08", "Tie"],
        parts=[part_filter_c08, engine_part("config", 32, 600, 45, claim_c08e, ["publish_ok"])],
        rule="[+ engine profile config: CreateSubscription / UpdateSubscription(filter) with invalid filters (repeated within one server process) are rejected and never stored] same inputs as C07: accept/reject + AST equality with the model, AsFilter text equality, and re-parse to the same AST; watchdog for hangs, recover for panics",
        assumptions=["text/scanner and strconv are modelled (Lex.v, Print.v), tied by this differential test", "never-crash/never-hang of the Go parser is checked on the generated inputs, not proved"]),
}
