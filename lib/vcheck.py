"""Orchestrator for the mmmbbb verification checks (see /verif/DESIGN.md section 8)."""
import fcntl, glob, hashlib, json, os, re, shutil, subprocess, sys, tempfile, time

VERIF = os.path.dirname(os.path.dirname(os.path.abspath(__file__)))
COQ = os.path.join(VERIF, "coq")
HARNESS = os.path.join(VERIF, "harness")
BIN = os.path.join(VERIF, "bin")
OUT = os.path.join(VERIF, "out")
EVID = os.path.join(VERIF, "evidence")
REPO = os.environ.get("VERIF_REPO", "/repo")
NCPU = os.cpu_count() or 8

GOENV = dict(os.environ, GOFLAGS="-mod=mod", GOPROXY="off", CGO_ENABLED="1")
GOENV.pop("GOTOOLCHAIN", None)

FORBIDDEN = re.compile(
    r"\b(Admitted|admit|Axiom|Axioms|Parameter|Parameters|Conjecture|Conjectures|Admit Obligations)\b"
    r"|Unset Guard Checking|Unset Positivity Checking|Unset Universe Checking|bypass_check|type-in-type|impredicative-set|native_compute")


def log(*a):
    print(*a, file=sys.stderr, flush=True)


def sh(cmd, cwd=None, timeout=600, env=None, inp=None):
    try:
        p = subprocess.run(cmd, cwd=cwd, env=env, input=inp, stdout=subprocess.PIPE, stderr=subprocess.STDOUT,
                           timeout=timeout, shell=isinstance(cmd, str), text=True, errors="replace")
        return p.returncode, p.stdout
    except subprocess.TimeoutExpired as e:
        return 124, (e.stdout or "") + "\n[timeout after %ss]" % timeout


class Lock:
    def __init__(self, name):
        os.makedirs(BIN, exist_ok=True)
        self.path = os.path.join(BIN, name + ".lock")

    def __enter__(self):
        self.f = open(self.path, "w")
        fcntl.flock(self.f, fcntl.LOCK_EX)
        return self

    def __exit__(self, *a):
        fcntl.flock(self.f, fcntl.LOCK_UN)
        self.f.close()


def scratch():
    root = os.environ.get("VERIF_SCRATCH") or ("/dev/shm" if os.path.isdir("/dev/shm") else tempfile.gettempdir())
    return tempfile.mkdtemp(prefix="verif-check-", dir=root)


# ---------------------------------------------------------------- Coq side

def ensure_coq():
    """Full .vo build of the development (no-op when fresh). Returns (ok, log)."""
    with Lock("coq"):
        if not os.path.exists(os.path.join(COQ, "Makefile")):
            rc, out = sh(["coq_makefile", "-f", "_CoqProject", "-o", "Makefile"], cwd=COQ)
            if rc != 0:
                return False, out
        rc, out = sh(["make", "-j%d" % NCPU], cwd=COQ, timeout=3000)
        return rc == 0, out


def hygiene():
    """Forbidden constructs anywhere in the development (comments stripped)."""
    bad = []
    listed = [l.strip() for l in open(os.path.join(COQ, "_CoqProject")) if l.strip().endswith(".v")]
    for rel in listed:
        f = os.path.join(COQ, rel)
        src = open(f, errors="replace").read()
        # strip (nested) comments
        out, depth, i = [], 0, 0
        while i < len(src):
            if src.startswith("(*", i):
                depth += 1
                i += 2
            elif src.startswith("*)", i) and depth > 0:
                depth -= 1
                i += 2
            else:
                if depth == 0:
                    out.append(src[i])
                i += 1
        for m in FORBIDDEN.finditer("".join(out)):
            bad.append("%s: %s" % (os.path.relpath(f, COQ), m.group(0)))
    return bad


def props_obligations(files):
    """Compile the property files on their own, capture Print Assumptions.
    Returns dict(theorems=[...], closed=n, axioms=[...], ok=bool, log=str)."""
    res = dict(theorems=[], closed=0, axioms=[], ok=True, log="", per_file={})
    for pf in files:
        path = os.path.join(COQ, "theories", "Props", pf + ".v")
        src = open(path).read()
        thms = re.findall(r"^\s*(?:Theorem|Corollary|Lemma)\s+(\w+)", src, re.M)
        with Lock("coq"):
            rc, out = sh(["coqc", "-Q", "theories", "MB", path], cwd=COQ, timeout=1200)
        closed = out.count("Closed under the global context")
        axioms = []
        for blk in re.findall(r"Axioms:\n((?:.+\n?)+?)(?:\n|$)", out):
            axioms.append(blk.strip())
        res["theorems"] += ["%s.%s" % (pf, t) for t in thms]
        res["closed"] += closed
        res["axioms"] += axioms
        res["per_file"][pf] = dict(theorems=len(thms), closed=closed, rc=rc)
        if rc != 0 or closed + len(axioms) < len(thms):
            res["ok"] = False
            res["log"] += "\n== %s (rc=%d)\n%s" % (pf, rc, out[-3000:])
    return res


def coqchk_props(files):
    """Thorough tier: re-check the compiled property files (and everything they depend on) with
    the independent checker coqchk, and read its context summary. One run per build: the result
    is cached under out/coqchk keyed by the compiled files' sizes and times."""
    import hashlib
    vos = sorted(glob.glob(os.path.join(COQ, "theories", "**", "*.vo"), recursive=True))
    h = hashlib.sha256()
    for f in vos:
        st = os.stat(f)
        h.update(("%s %d %d\n" % (os.path.relpath(f, COQ), st.st_size, int(st.st_mtime))).encode())
    mods = sorted("MB.Props." + os.path.basename(f)[:-2] for f in glob.glob(os.path.join(COQ, "theories", "Props", "*.v")))
    key = h.hexdigest()[:24]
    cdir = os.path.join(OUT, "coqchk")
    os.makedirs(cdir, exist_ok=True)
    cf = os.path.join(cdir, key + ".json")
    with Lock("coqchk"):
        if os.path.exists(cf):
            return json.load(open(cf))
        t0 = time.time()
        rc, out = sh(["coqchk", "-silent", "-o", "-Q", "theories", "MB"] + mods, cwd=COQ, timeout=7200)
        fields = dict(re.findall(r"\* (Axioms|Constants/Inductives relying on type-in-type|Constants/Inductives relying on unsafe \(co\)fixpoints|"
                                 r"Inductives whose positivity is assumed):\s*(.*?)\n\s*\n", out + "\n\n", re.S))
        res = dict(rc=rc, modules=len(mods), wall_s=round(time.time() - t0), summary={k: " ".join(v.split()) for k, v in fields.items()},
                   ok=(rc == 0 and len(fields) == 4 and all(" ".join(v.split()) == "<none>" for v in fields.values())), log=out[-2000:])
        json.dump(res, open(cf, "w"), indent=1)
        return res


def coq_eval(files, timeout=1500):
    """Evaluate cases files in parallel; returns {file: output}."""
    procs = []
    outs = {}
    pending = list(files)
    running = []
    while pending or running:
        while pending and len(running) < NCPU:
            f = pending.pop(0)
            p = subprocess.Popen(["timeout", str(timeout), "coqc", "-Q", os.path.join(COQ, "theories"), "MB", f],
                                 cwd=os.path.dirname(f), stdout=subprocess.PIPE, stderr=subprocess.STDOUT, text=True, errors="replace")
            running.append((f, p))
        for f, p in list(running):
            if p.poll() is not None:
                outs[f] = (p.returncode, p.stdout.read())
                running.remove((f, p))
        time.sleep(0.05)
    return outs


# ---------------------------------------------------------------- Go side

def ensure_harness():
    with Lock("harness"):
        os.makedirs(BIN, exist_ok=True)
        try:
            shutil.copyfile(os.path.join(REPO, "go.sum"), os.path.join(HARNESS, "go.sum"))
        except OSError as e:
            return False, "cannot copy go.sum: %s" % e
        rc, out = sh(["go", "build", "-tags", "verif", "-o", os.path.join(BIN, "harness"), "."], cwd=HARNESS, env=GOENV, timeout=1500)
        return rc == 0, out


def harness(args, timeout=1500, cwd=None):
    return sh([os.path.join(BIN, "harness")] + args, cwd=cwd or HARNESS, env=GOENV, timeout=timeout)


# ---------------------------------------------------------------- results

class Part:
    """Outcome of one part of a check."""
    def __init__(self, name):
        self.name = name
        self.evaluations = 0
        self.nontrivial = 0
        self.samples = []
        self.violations = []   # dicts: key, desc, replay (dict), found_input (bool)
        self.info = {}
        self.traces = 0

    def violation(self, key, desc, replay, found_input=True):
        self.violations.append(dict(key=key, desc=desc, replay=replay, found_input=found_input))


def known_findings():
    known, fixed = [], []
    path = os.path.join(VERIF, "known-findings.txt")
    if os.path.exists(path):
        for line in open(path):
            line = line.strip()
            m = re.match(r"known:\s+property=(\S+)\s+key=(\S+)\s+(.*)", line)
            if m:
                known.append(dict(prop=m.group(1), key=m.group(2), text=m.group(3)))
            m = re.match(r"fixed:\s+property=(\S+)\s+(\S+)\s+(.*)", line)
            if m:
                fixed.append(dict(prop=m.group(1), commit=m.group(2), text=m.group(3)))
    return known, fixed


def finish(pid, tier, seed, t0, proof, parts, level_text, trusted, assumptions, extra=None):
    """Print verdict lines, write evidence, return exit code."""
    known, _ = known_findings()
    os.makedirs(os.path.join(OUT, pid), exist_ok=True)
    os.makedirs(EVID, exist_ok=True)
    nviol = 0
    seen_known = set()
    n = 0
    for p in parts:
        for v in p.violations:
            k = next((x for x in known if x["prop"] == pid and (x["key"] == v["key"] or v["key"].startswith(x["key"] + ":"))), None)
            if k is not None:
                if k["key"] not in seen_known:
                    seen_known.add(k["key"])
                    print("KNOWN-FINDING: property=%s %s (%s)" % (pid, k["text"], v["desc"][:200]))
                continue
            n += 1
            nviol += 1
            rp = os.path.join(OUT, pid, "%s-%d.json" % (seed, n))
            json.dump(dict(property=pid, part=p.name, key=v["key"], description=v["desc"], tier=tier, seed=seed,
                           replay=v["replay"]), open(rp, "w"), indent=1, default=str)
            tail = "" if v["found_input"] else " no-failing-input-found"
            print("VIOLATION property=%s replay=%s%s" % (pid, rp, tail))
            log("  -> %s: %s" % (v["key"], v["desc"][:400]))
            if n >= 5:
                break
    evaluations = sum(p.evaluations for p in parts)
    nontrivial = sum(p.nontrivial for p in parts)
    samples = []
    for p in parts:
        samples += [s if not isinstance(s, str) or len(s) < 600 else s[:600] + " ..." for s in p.samples[:3]]
    cov = dict(
        obligations=len(proof["theorems"]) if proof else 0,
        discharged=(proof["closed"] if proof and proof["ok"] else (proof["closed"] if proof else 0)),
        checker_cmd="make -C /verif/coq (coqc 8.16.1, full .vo build) + coqc theories/Props/<file>.v with Print Assumptions",
        trusted_base=trusted,
        theorems=proof["theorems"] if proof else [],
        axioms_reported_by_print_assumptions=proof["axioms"] if proof else [],
        evaluations=evaluations,
        distinct_nontrivial=nontrivial,
        rule=level_text,
        samples=samples or ["(no correspondence cases in this part)"],
        traces_validated_against_impl=sum(p.traces for p in parts),
        parts={p.name: dict(evaluations=p.evaluations, distinct_nontrivial=p.nontrivial, info=p.info,
                            violations=len(p.violations)) for p in parts},
    )
    if proof and proof.get("coqchk"):
        cov["independent_recheck_coqchk"] = proof["coqchk"]
    if extra:
        cov.update(extra)
    ev = dict(property_id=pid, tier=tier, seed=int(seed), level="proof", coverage=cov, assumptions=assumptions,
              wall_s=round(time.time() - t0, 2), violations=nviol)
    json.dump(ev, open(os.path.join(EVID, pid + ".json"), "w"), indent=1, default=str)
    return 1 if nviol else 0


TRUSTED_COMMON = [
    "Coq 8.16.1 kernel including vm_compute (no native_compute is used)",
    "coqc / make producing fresh .vo files (full build, never -vos)",
    "no axioms: every property theorem prints 'Closed under the global context' under Print Assumptions (listed in coverage.axioms_reported_by_print_assumptions otherwise)",
    "no extraction is used: the model's executable definitions are evaluated inside Coq with vm_compute on cases files written by the harness",
    "the Go harness under /verif/harness (generators, SQL driver wrapper, table dump = abstraction function, Coq term emitter) and /verif/lib/vcheck.py",
    "the hand-written model is tied to /repo only through the correspondence check: parts of the code not exercised by the generators are modelled, not verified",
]


def proof_part(proof, pid):
    """Turn a broken proof obligation into a violation record (no failing input yet)."""
    p = Part("proof")
    if proof is None:
        return p
    p.evaluations = len(proof["theorems"])
    p.nontrivial = proof["closed"]
    if not proof["ok"]:
        p.violation("proof-broken", "a property theorem of %s no longer checks: %s" % (pid, proof["log"][-1500:]),
                    dict(kind="theorem", log=proof["log"][-4000:]), found_input=False)
    return p


def main(argv):
    import props
    if not argv:
        print(__doc__)
        return 2
    if argv[0] == "setup":
        ok, out = ensure_coq()
        if not ok:
            print(out[-4000:])
            return 1
        ok, out = ensure_harness()
        if not ok:
            print(out[-4000:])
            return 1
        bad = hygiene()
        if bad:
            print("forbidden constructs:", bad)
            return 1
        print("setup ok")
        return 0
    if argv[0] == "replay":
        return props.replay(argv[1])
    pid = argv[0]
    tier = os.environ.get("VERIF_TIER", "quick")
    if "--tier" in argv:
        tier = argv[argv.index("--tier") + 1]
    seed = int(os.environ.get("VERIF_SEED", "1") or "1")
    if pid not in props.CHECKS:
        print("unknown property", pid)
        return 2
    t0 = time.time()
    ok, out = ensure_coq()
    coq_ok = ok
    if not ok:
        log("Coq build failed:\n" + out[-3000:])
    ok, hout = ensure_harness()
    if not ok:
        # the harness builds against /repo: a change that breaks its build breaks the tie
        p = Part("build")
        p.violation("harness-build", "the harness no longer builds against /repo: " + hout[-1500:],
                    dict(kind="build", log=hout[-4000:]), found_input=False)
        return finish(pid, tier, seed, t0, None, [p], "harness build", TRUSTED_COMMON, [])
    bad = hygiene()
    spec = props.CHECKS[pid]
    proof = props_obligations(spec["props"]) if coq_ok else dict(theorems=[], closed=0, axioms=[], ok=False, log=out[-3000:], per_file={})
    if bad:
        proof["ok"] = False
        proof["log"] += "\nforbidden constructs: %s" % bad
    if tier == "thorough" and coq_ok:
        ck = coqchk_props(spec["props"])
        proof["coqchk"] = dict(ok=ck["ok"], summary=ck["summary"], modules=ck["modules"], wall_s=ck["wall_s"])
        if not ck["ok"]:
            proof["ok"] = False
            proof["log"] += "\ncoqchk: %s\n%s" % (ck["summary"], ck["log"])
    parts = [proof_part(proof, pid)]
    work = scratch()
    try:
        ctx = dict(pid=pid, tier=tier, seed=seed, work=work, coq_ok=coq_ok)
        fns = [fn for fn in spec["parts"] if coq_ok or not getattr(fn, "needs_coq", True)]
        if spec.get("parallel"):
            # independent parts (separate databases, separate cases files) side by side
            from concurrent.futures import ThreadPoolExecutor
            with ThreadPoolExecutor(max_workers=len(fns) or 1) as ex:
                parts += list(ex.map(lambda fn: fn(dict(ctx)), fns))
        else:
            for fn in fns:
                parts.append(fn(ctx))
    finally:
        shutil.rmtree(work, ignore_errors=True)
    return finish(pid, tier, seed, t0, proof, parts, spec["rule"], TRUSTED_COMMON + spec.get("trusted", []),
                  spec.get("assumptions", []), spec.get("extra"))
